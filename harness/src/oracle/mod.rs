pub mod model;
pub mod naive;
pub mod refctph;

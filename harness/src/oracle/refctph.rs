//! O1: literal port of libfuzzy 2.14.1 fuzzy.c (engine + digest), written from
//! the structure of the C program: 0-terminated digests, dindex, halfdigest,
//! lasth, arithmetic FNV.  Shares no code with ffuzzy.
#![allow(dead_code)]

pub const FLAG_ELIMSEQ: u32 = 1;
pub const FLAG_NOTRUNC: u32 = 2;
const B64: &[u8; 64] = b"ABCDEFGHIJKLMNOPQRSTUVWXYZabcdefghijklmnopqrstuvwxyz0123456789+/";
const NUM: usize = 31;
const LEN: usize = 64;
const HASH_INIT: u8 = 0x27;
#[inline]
fn bs(i: usize) -> u64 {
    3u64 << i
}
pub const TOTAL_MAX: u64 = (3u64 << 30) * 64;

#[derive(Clone)]
struct Roll {
    w: [u8; 7],
    h1: u32,
    h2: u32,
    h3: u32,
    n: usize,
}
impl Roll {
    #[inline]
    fn hash(&mut self, c: u8) {
        self.h2 = self.h2.wrapping_sub(self.h1).wrapping_add(7u32.wrapping_mul(c as u32));
        self.h1 = self.h1.wrapping_add(c as u32).wrapping_sub(self.w[self.n] as u32);
        self.w[self.n] = c;
        self.n += 1;
        if self.n == 7 {
            self.n = 0;
        }
        self.h3 = (self.h3 << 5) ^ (c as u32);
    }
    #[inline]
    fn sum(&self) -> u32 {
        self.h1.wrapping_add(self.h2).wrapping_add(self.h3)
    }
}
#[inline]
fn sum_hash(c: u8, h: u8) -> u8 {
    (((h as u32).wrapping_mul(0x0100_0193) ^ (c as u32)) & 0x3f) as u8
}
#[derive(Clone)]
struct Bh {
    dindex: usize,
    digest: [u8; LEN],
    halfdigest: u8,
    h: u8,
    halfh: u8,
}
#[derive(Clone)]
pub struct State {
    total: u64,
    fixed_size: u64,
    reduce_border: u64,
    bhstart: usize,
    bhend: usize,
    bhendlimit: usize,
    fixed: bool,
    need_last: bool,
    rollmask: u32,
    bh: Vec<Bh>,
    roll: Roll,
    lasth: u8,
    pub n_fork: u64,
    pub n_reduce: u64,
    pub n_sat: u64,
    pub n_trigger: u64,
}
#[derive(Debug, PartialEq, Eq, Clone, Copy)]
pub enum RefErr {
    Overflow,
    Inval,
}
impl State {
    pub fn new() -> Self {
        let b = Bh { dindex: 0, digest: [0; LEN], halfdigest: 0, h: HASH_INIT, halfh: HASH_INIT };
        State {
            total: 0,
            fixed_size: 0,
            reduce_border: 192,
            bhstart: 0,
            bhend: 1,
            bhendlimit: NUM - 1,
            fixed: false,
            need_last: false,
            rollmask: 0,
            bh: vec![b; NUM],
            roll: Roll { w: [0; 7], h1: 0, h2: 0, h3: 0, n: 0 },
            lasth: 0,
            n_fork: 0,
            n_reduce: 0,
            n_sat: 0,
            n_trigger: 0,
        }
    }
    pub fn set_total_input_length(&mut self, len: u64) -> Result<(), RefErr> {
        if len > TOTAL_MAX {
            return Err(RefErr::Overflow);
        }
        if self.fixed && self.fixed_size != len {
            return Err(RefErr::Inval);
        }
        self.fixed = true;
        self.fixed_size = len;
        let mut bi = 0;
        while bs(bi) * 64 < len {
            bi += 1;
            if bi == NUM - 2 {
                break;
            }
        }
        self.bhendlimit = bi + 1;
        Ok(())
    }
    fn try_fork(&mut self) {
        let o = self.bhend - 1;
        if self.bhend <= self.bhendlimit {
            let (h, hh) = (self.bh[o].h, self.bh[o].halfh);
            let n = &mut self.bh[o + 1];
            n.h = h;
            n.halfh = hh;
            n.digest[0] = 0;
            n.halfdigest = 0;
            n.dindex = 0;
            self.bhend += 1;
            self.n_fork += 1;
        } else if self.bhend == NUM && !self.need_last {
            self.need_last = true;
            self.lasth = self.bh[o].h;
        }
    }
    fn try_reduce(&mut self) {
        if self.bhend - self.bhstart < 2 {
            return;
        }
        let sz = if self.fixed { self.fixed_size } else { self.total };
        if self.reduce_border >= sz {
            return;
        }
        if self.bh[self.bhstart + 1].dindex < LEN / 2 {
            return;
        }
        self.bhstart += 1;
        self.reduce_border *= 2;
        self.rollmask = self.rollmask * 2 + 1;
        self.n_reduce += 1;
    }
    #[inline]
    fn step(&mut self, c: u8) {
        self.roll.hash(c);
        let horg = self.roll.sum().wrapping_add(1);
        let mut h = horg / 3;
        for i in self.bhstart..self.bhend {
            self.bh[i].h = sum_hash(c, self.bh[i].h);
            self.bh[i].halfh = sum_hash(c, self.bh[i].halfh);
        }
        if self.need_last {
            self.lasth = sum_hash(c, self.lasth);
        }
        if horg == 0 {
            return;
        }
        if h & self.rollmask != 0 {
            return;
        }
        if horg % 3 != 0 {
            return;
        }
        h >>= self.bhstart;
        let mut i = self.bhstart;
        self.n_trigger += 1;
        loop {
            if self.bh[i].dindex == 0 {
                self.try_fork();
            }
            let d = self.bh[i].dindex;
            self.bh[i].digest[d] = B64[self.bh[i].h as usize];
            self.bh[i].halfdigest = B64[self.bh[i].halfh as usize];
            if d < LEN - 1 {
                self.bh[i].dindex += 1;
                let d = self.bh[i].dindex;
                self.bh[i].digest[d] = 0;
                self.bh[i].h = HASH_INIT;
                if d < LEN / 2 {
                    self.bh[i].halfh = HASH_INIT;
                    self.bh[i].halfdigest = 0;
                }
            } else {
                self.n_sat += 1;
                self.try_reduce();
            }
            if h & 1 != 0 {
                break;
            }
            h >>= 1;
            i += 1;
            if i >= self.bhend {
                break;
            }
        }
    }
    pub fn update(&mut self, buf: &[u8]) {
        self.total = self.total.saturating_add(buf.len() as u64);
        for &c in buf {
            self.step(c);
        }
    }
    /// closed form for n zero bytes fed to a state that has only seen zero bytes
    pub fn jump_zeros(&mut self, n: u64) {
        assert!(self.bhend == 1 && self.bhstart == 0 && self.roll.sum() == 0);
        self.total += n;
        for _ in 0..(n % 7) {
            self.roll.hash(0);
        }
        for _ in 0..(n % 64) {
            self.bh[0].h = sum_hash(0, self.bh[0].h);
            self.bh[0].halfh = sum_hash(0, self.bh[0].halfh);
        }
    }
    pub fn total(&self) -> u64 {
        self.total
    }
    pub fn roll_value(&self) -> u32 {
        self.roll.sum()
    }
    /// (bhstart, bhend, need_last)
    pub fn probe(&self) -> (usize, usize, bool) {
        (self.bhstart, self.bhend, self.need_last)
    }
    /// max number of pieces recorded at any active level
    pub fn max_pieces(&self) -> usize {
        (self.bhstart..self.bhend).map(|i| self.bh[i].dindex).max().unwrap_or(0)
    }
    pub fn digest(&self, flags: u32) -> Result<String, RefErr> {
        let mut bi = self.bhstart;
        let h = self.roll.sum();
        if self.total > TOTAL_MAX {
            return Err(RefErr::Overflow);
        }
        if self.fixed && self.fixed_size != self.total {
            return Err(RefErr::Inval);
        }
        while bs(bi) * 64 < self.total {
            bi += 1;
        }
        if bi >= self.bhend {
            bi = self.bhend - 1;
        }
        while bi > self.bhstart && self.bh[bi].dindex < LEN / 2 {
            bi -= 1;
        }
        let mut out = format!("{}:", bs(bi)).into_bytes();
        let elim = flags & FLAG_ELIMSEQ != 0;
        let push = |out: &mut Vec<u8>, st: usize, c: u8| {
            if elim {
                let n = out.len();
                if n - st >= 3 && out[n - 1] == c && out[n - 2] == c && out[n - 3] == c {
                    return;
                }
            }
            out.push(c);
        };
        let st = out.len();
        let b = &self.bh[bi];
        for k in 0..b.dindex {
            push(&mut out, st, b.digest[k]);
        }
        if h != 0 {
            push(&mut out, st, B64[b.h as usize]);
        } else if b.digest[b.dindex] != 0 {
            push(&mut out, st, b.digest[b.dindex]);
        }
        out.push(b':');
        let st = out.len();
        if bi < self.bhend - 1 {
            let b = &self.bh[bi + 1];
            let nt = flags & FLAG_NOTRUNC != 0;
            let mut i = b.dindex;
            if !nt && i > LEN / 2 - 1 {
                i = LEN / 2 - 1;
            }
            for k in 0..i {
                push(&mut out, st, b.digest[k]);
            }
            if h != 0 {
                push(&mut out, st, B64[(if nt { b.h } else { b.halfh }) as usize]);
            } else {
                let c = if nt { b.digest[b.dindex] } else { b.halfdigest };
                if c != 0 {
                    push(&mut out, st, c);
                }
            }
        } else if h != 0 {
            // bi is 0 or NUM-1 here
            out.push(B64[(if bi == 0 { self.bh[0].h } else { self.lasth }) as usize]);
        }
        Ok(String::from_utf8(out).unwrap())
    }
    /// index of the output block size
    pub fn out_index(&self) -> usize {
        let mut bi = self.bhstart;
        while bs(bi) * 64 < self.total {
            bi += 1;
        }
        if bi >= self.bhend {
            bi = self.bhend - 1;
        }
        while bi > self.bhstart && self.bh[bi].dindex < LEN / 2 {
            bi -= 1;
        }
        bi
    }
}

/// One-call convenience: (truncated, non-truncated) digests of a buffer.
pub fn digest_pair(data: &[u8]) -> (String, String, State) {
    let mut s = State::new();
    s.update(data);
    (s.digest(0).unwrap(), s.digest(FLAG_NOTRUNC).unwrap(), s)
}

//! O3 grammar, O4 normalize, O5 compare, O6 lcs, O7 7-gram, O8 abstract hash value.
//! Deliberately naive; shares no code (and no tables) with ffuzzy.
#![allow(dead_code)]

use std::cmp::Ordering;

/// base64 index by arithmetic on the ASCII ranges
pub fn b64idx(c: u8) -> Option<u8> {
    match c {
        b'A'..=b'Z' => Some(c - b'A'),
        b'a'..=b'z' => Some(c - b'a' + 26),
        b'0'..=b'9' => Some(c - b'0' + 52),
        b'+' => Some(62),
        b'/' => Some(63),
        _ => None,
    }
}
/// base64 char by arithmetic
pub fn b64chr(i: u8) -> u8 {
    match i {
        0..=25 => b'A' + i,
        26..=51 => b'a' + (i - 26),
        52..=61 => b'0' + (i - 52),
        62 => b'+',
        63 => b'/',
        _ => panic!("symbol out of range in oracle"),
    }
}

/// O4: collapse every run longer than 3 to 3
pub fn normalize(v: &[u8]) -> Vec<u8> {
    let mut o: Vec<u8> = Vec::new();
    for &c in v {
        let n = o.len();
        if n >= 3 && o[n - 1] == c && o[n - 2] == c && o[n - 3] == c {
            continue;
        }
        o.push(c);
    }
    o
}
pub fn is_normalized(v: &[u8]) -> bool {
    normalize(v).len() == v.len()
}
/// runs longer than 3: (start position in raw, run length)
pub fn long_runs(v: &[u8]) -> Vec<(usize, usize)> {
    let mut out = Vec::new();
    let mut i = 0;
    while i < v.len() {
        let mut j = i;
        while j < v.len() && v[j] == v[i] {
            j += 1;
        }
        if j - i > 3 {
            out.push((i, j - i));
        }
        i = j;
    }
    out
}
/// number of RLE symbols a dual hash needs for this raw block hash
pub fn rle_symbols(v: &[u8]) -> usize {
    long_runs(v).iter().map(|&(_, l)| (l - 3 + 3) / 4).sum()
}

#[derive(Debug, Clone, Copy, PartialEq, Eq)]
pub enum Field {
    BlockSize,
    BlockHash1,
    BlockHash2,
}
#[derive(Debug, Clone, PartialEq, Eq)]
pub enum Parsed {
    Reject(Field),
    Accept { log: u8, bh1: Vec<u8>, bh2: Vec<u8>, end: usize },
}

/// O3: recogniser for the fuzzy hash text grammar.
/// `s2`: capacity of block hash 2; `count_raw`: capacity applies to the raw
/// length (else to the run-collapsed length); `norm_out`: return collapsed symbols.
pub fn parse(t: &[u8], s2: usize, count_raw: bool, norm_out: bool) -> Parsed {
    let colon = match t.iter().position(|&c| !c.is_ascii_digit()) {
        Some(p) => p,
        None => return Parsed::Reject(Field::BlockSize),
    };
    if t[colon] != b':' || colon == 0 {
        return Parsed::Reject(Field::BlockSize);
    }
    let digits = &t[..colon];
    let mut log = None;
    for n in 0..31u8 {
        if (3u64 << n).to_string().as_bytes() == digits {
            log = Some(n);
        }
    }
    let log = match log {
        Some(l) => l,
        None => return Parsed::Reject(Field::BlockSize),
    };
    let mut pos = colon + 1;
    let mut take = |pos: &mut usize, cap: usize, f: Field, last: bool| -> Result<Vec<u8>, Parsed> {
        let mut raw = Vec::new();
        while *pos < t.len() {
            if let Some(i) = b64idx(t[*pos]) {
                raw.push(i);
                *pos += 1;
            } else {
                break;
            }
        }
        let n = normalize(&raw);
        let cnt = if count_raw { raw.len() } else { n.len() };
        if cnt > cap {
            return Err(Parsed::Reject(f));
        }
        if !last {
            if *pos < t.len() && t[*pos] == b':' {
                *pos += 1;
            } else {
                return Err(Parsed::Reject(f));
            }
        } else if *pos < t.len() && t[*pos] != b',' {
            return Err(Parsed::Reject(f));
        }
        Ok(if norm_out { n } else { raw })
    };
    let bh1 = match take(&mut pos, 64, Field::BlockHash1, false) {
        Ok(v) => v,
        Err(e) => return e,
    };
    let bh2 = match take(&mut pos, s2, Field::BlockHash2, true) {
        Ok(v) => v,
        Err(e) => return e,
    };
    Parsed::Accept { log, bh1, bh2, end: pos }
}

/// true when some block hash of the text is longer than the capacity in raw
/// form (the only texts on which strict and default parsers may differ)
pub fn raw_exceeds_capacity(t: &[u8], s2: usize) -> bool {
    matches!(parse(t, s2, true, false), Parsed::Reject(Field::BlockHash1) | Parsed::Reject(Field::BlockHash2))
        && matches!(parse(t, s2, false, false), Parsed::Accept { .. })
}

/// O6: textbook LCS dynamic programme -> insert/delete distance
pub fn lcs_len(a: &[u8], b: &[u8]) -> u32 {
    let mut t = vec![vec![0u32; b.len() + 1]; a.len() + 1];
    for i in 1..=a.len() {
        for j in 1..=b.len() {
            t[i][j] = if a[i - 1] == b[j - 1] { t[i - 1][j - 1] + 1 } else { t[i - 1][j].max(t[i][j - 1]) };
        }
    }
    t[a.len()][b.len()]
}
pub fn lcs_dist(a: &[u8], b: &[u8]) -> u32 {
    (a.len() + b.len()) as u32 - 2 * lcs_len(a, b)
}
/// O7: naive common 7-gram test
pub fn common7(a: &[u8], b: &[u8]) -> bool {
    if a.len() < 7 || b.len() < 7 {
        return false;
    }
    for i in 0..=a.len() - 7 {
        for j in 0..=b.len() - 7 {
            if a[i..i + 7] == b[j..j + 7] {
                return true;
            }
        }
    }
    false
}
/// raw score formula of ssdeep (only meaningful when both are >= 7 long)
pub fn raw_score(l1: u32, l2: u32, d: u32) -> u32 {
    let s = (d * 64) / (l1 + l2);
    100 - (100 * s) / 64
}
/// score_strings of fuzzy.c on normalized symbol strings, `bs` = effective block size (u64)
pub fn score_strings(a: &[u8], b: &[u8], bs: u64) -> u32 {
    if !common7(a, b) {
        return 0;
    }
    let s = raw_score(a.len() as u32, b.len() as u32, lcs_dist(a, b));
    if bs >= (99 + 7) / 7 * 3 {
        return s;
    }
    let cap = (bs / 3) as u32 * a.len().min(b.len()) as u32;
    s.min(cap)
}
/// which block-hash pair decided: 0 none, 1 bh1/bh1, 2 bh2/bh2, 3 cross
pub fn compare_detail(l1: u8, a1: &[u8], a2: &[u8], l2: u8, b1: &[u8], b2: &[u8]) -> (u32, u8) {
    let (bs1, bs2) = (3u64 << l1, 3u64 << l2);
    if bs1 != bs2 && bs1 * 2 != bs2 && bs1 != bs2 * 2 {
        return (0, 0);
    }
    let (a1, a2, b1, b2) = (normalize(a1), normalize(a2), normalize(b1), normalize(b2));
    if bs1 == bs2 && a1 == b1 && a2 == b2 {
        return (100, 0);
    }
    if bs1 == bs2 {
        let s1 = score_strings(&a1, &b1, bs1);
        let s2 = score_strings(&a2, &b2, bs1 * 2);
        if s1 >= s2 {
            (s1, 1)
        } else {
            (s2, 2)
        }
    } else if bs1 * 2 == bs2 {
        (score_strings(&b1, &a2, bs2), 3)
    } else {
        (score_strings(&a1, &b2, bs1), 3)
    }
}
/// O5: fuzzy_compare on (log, raw bh1, raw bh2) values
pub fn compare(l1: u8, a1: &[u8], a2: &[u8], l2: u8, b1: &[u8], b2: &[u8]) -> u32 {
    compare_detail(l1, a1, a2, l2, b1, b2).0
}

/// O8: abstract hash value
#[derive(Debug, Clone, PartialEq, Eq, Hash)]
pub struct HV {
    pub log: u8,
    pub bh1: Vec<u8>,
    pub bh2: Vec<u8>,
}
impl HV {
    pub fn new(log: u8, bh1: &[u8], bh2: &[u8]) -> Self {
        HV { log, bh1: bh1.to_vec(), bh2: bh2.to_vec() }
    }
    pub fn text(&self) -> String {
        let mut s = format!("{}:", 3u64 << self.log).into_bytes();
        s.extend(self.bh1.iter().map(|&c| b64chr(c)));
        s.push(b':');
        s.extend(self.bh2.iter().map(|&c| b64chr(c)));
        String::from_utf8(s).unwrap()
    }
    pub fn normalized(&self) -> HV {
        HV { log: self.log, bh1: normalize(&self.bh1), bh2: normalize(&self.bh2) }
    }
    pub fn is_normalized(&self) -> bool {
        is_normalized(&self.bh1) && is_normalized(&self.bh2)
    }
    /// documented order: block size, bh1 lexicographic (prefix first), bh2
    pub fn cmp_key(&self, o: &HV) -> Ordering {
        self.log.cmp(&o.log).then_with(|| lex(&self.bh1, &o.bh1)).then_with(|| lex(&self.bh2, &o.bh2))
    }
    pub fn fp(&self) -> u64 {
        let mut v = vec![self.log, self.bh1.len() as u8];
        v.extend(&self.bh1);
        v.push(0xff);
        v.extend(&self.bh2);
        crate::rng::fnv64(&v)
    }
}
/// symbol-wise lexicographic order, proper prefix first (written out, not slice::cmp)
pub fn lex(a: &[u8], b: &[u8]) -> Ordering {
    let mut i = 0;
    loop {
        match (i < a.len(), i < b.len()) {
            (false, false) => return Ordering::Equal,
            (false, true) => return Ordering::Less,
            (true, false) => return Ordering::Greater,
            (true, true) => {
                if a[i] < b[i] {
                    return Ordering::Less;
                }
                if a[i] > b[i] {
                    return Ordering::Greater;
                }
            }
        }
        i += 1;
    }
}

//! O2: the *definition* of the CTPH hash in the property text, executed
//! naively: 31 independent levels, no fork/elimination/roll mask, rolling hash
//! recomputed from the trailing 7 bytes at every position, piece hash = low 6
//! bits of 32-bit FNV-1 (init 0x28021967) over the piece bytes.
#![allow(dead_code)]

const B64: &[u8; 64] = b"ABCDEFGHIJKLMNOPQRSTUVWXYZabcdefghijklmnopqrstuvwxyz0123456789+/";

pub fn fnv32(bytes: &[u8]) -> u32 {
    let mut h: u32 = 0x2802_1967;
    for &c in bytes {
        h = h.wrapping_mul(0x0100_0193) ^ (c as u32);
    }
    h
}
fn ch(bytes: &[u8]) -> u8 {
    B64[(fnv32(bytes) & 63) as usize]
}

/// rolling hash from scratch over the (zero-filled) 7-byte window ending at `end` (inclusive)
pub fn roll_at(data: &[u8], end: usize) -> u32 {
    let mut w = [0u8; 7];
    for j in 0..7 {
        // w[6] newest
        let back = 6 - j;
        if end >= back {
            w[j] = data[end - back];
        }
    }
    roll_of_window(&w)
}
pub fn roll_of_window(w: &[u8; 7]) -> u32 {
    let mut h1 = 0u32;
    let mut h2 = 0u32;
    let mut h3 = 0u32;
    for (j, &b) in w.iter().enumerate() {
        h1 = h1.wrapping_add(b as u32);
        h2 = h2.wrapping_add((j as u32 + 1).wrapping_mul(b as u32));
        h3 = (h3 << 5) ^ (b as u32);
    }
    h1.wrapping_add(h2).wrapping_add(h3)
}

pub struct Naive {
    pub index: usize,
    pub text_trunc: String,
    pub text_notrunc: String,
}

pub fn hash(data: &[u8]) -> Naive {
    let n = data.len();
    // trigger level per position (None = no trigger)
    let mut lev: Vec<i8> = vec![-1; n];
    let mut has = [false; 31];
    for i in 0..n {
        let r = roll_at(data, i) as u64 + 1;
        let mut k: i8 = -1;
        while k < 30 && r % (3u64 << (k + 1)) == 0 {
            k += 1;
        }
        lev[i] = k;
        if k >= 0 {
            for j in 0..=(k as usize) {
                has[j] = true;
            }
        }
    }
    let roll_end = if n == 0 { 0 } else { roll_at(data, n - 1) };
    let nlev = (1 + has.iter().filter(|&&x| x).count()).min(31);
    // per level: trigger end positions (exclusive)
    let ends = |k: usize| -> Vec<usize> {
        (0..n).filter(|&i| lev[i] >= k as i8).map(|i| i + 1).collect()
    };
    let mut bi = 0usize;
    while (192u64 << bi) < n as u64 {
        bi += 1;
    }
    if bi >= nlev {
        bi = nlev - 1;
    }
    while bi > 0 && ends(bi).len().min(63) < 32 {
        bi -= 1;
    }
    // full-form block hash of level k
    let full = |k: usize| -> Vec<u8> {
        let e = ends(k);
        let m = e.len().min(63);
        let mut out = Vec::new();
        let mut st = 0;
        for p in 0..m {
            out.push(ch(&data[st..e[p]]));
            st = e[p];
        }
        if roll_end != 0 {
            out.push(ch(&data[st..]));
        } else if e.len() >= 64 {
            out.push(ch(&data[st..*e.last().unwrap()]));
        }
        out
    };
    let half = |k: usize| -> Vec<u8> {
        let e = ends(k);
        let m = e.len().min(31);
        let mut out = Vec::new();
        let mut st = 0;
        for p in 0..m {
            out.push(ch(&data[st..e[p]]));
            st = e[p];
        }
        if roll_end != 0 {
            out.push(ch(&data[st..]));
        } else if e.len() >= 32 {
            out.push(ch(&data[st..*e.last().unwrap()]));
        }
        out
    };
    let bh1 = full(bi);
    let (b2t, b2n) = if bi < nlev - 1 {
        (half(bi + 1), full(bi + 1))
    } else if roll_end != 0 {
        let c = vec![ch(data)];
        (c.clone(), c)
    } else {
        (vec![], vec![])
    };
    let mk = |b2: &[u8]| {
        format!(
            "{}:{}:{}",
            3u64 << bi,
            String::from_utf8(bh1.clone()).unwrap(),
            String::from_utf8(b2.to_vec()).unwrap()
        )
    };
    Naive { index: bi, text_trunc: mk(&b2t), text_notrunc: mk(&b2n) }
}

//! Run context: options, per-thread accumulators, the stream runner, the
//! totality monitor (catch_unwind + silent panic hook) and result output.

use crate::json::J;
use crate::rng::Rng;
use std::cell::RefCell;
use std::collections::{BTreeMap, HashSet};
use std::panic::{catch_unwind, AssertUnwindSafe};
use std::sync::atomic::{AtomicU64, Ordering};
use std::sync::Mutex;
use std::time::Instant;

#[derive(Clone, Copy, PartialEq, Eq, Debug)]
pub enum Tier {
    Quick,
    Thorough,
}

#[derive(Clone)]
pub struct Opts {
    pub prop: String,
    pub tier: Tier,
    pub seed: u64,
    pub threads: usize,
    pub config: String,
    pub out: Option<String>,
    /// replay: run exactly one case of one stream, verbosely
    pub only: Option<(String, u64)>,
    /// scale factor in percent applied to random stream sizes (C14 reduced-size runs, Miri)
    pub scale_pct: u64,
    /// clamp every stream to this many cases (Miri / sanitizer runs); 0 = no clamp
    pub max_cases: u64,
    /// (i, n): run only the cases whose index is congruent to i modulo n (sharded interpreter runs)
    pub shard: (u64, u64),
    /// stream names to skip (too heavy for an interpreter)
    pub skip: Vec<String>,
    /// print a line per case to stderr (attribution of sanitizer reports)
    pub trace_cases: bool,
    pub extra: Vec<String>,
}

impl Opts {
    /// n for quick, m for thorough, scaled.
    pub fn n(&self, quick: u64, thorough: u64) -> u64 {
        // quick sizes in the monitors were calibrated for ~1 s; 8x keeps every quick check within ~10-40 s
        // thorough sizes were re-calibrated after measuring (target: 5-15 min per property and configuration)
        let tm: u64 = match self.prop.as_str() {
            "c02" | "c05" | "c16" => 5,
            "c04" | "c09" | "c10" | "c12" | "c13" | "c17" => 4,
            "c06" => 8,
            "c07" | "c18" => 3,
            "c11" => 6,
            "c15" => 10,
            "c19" => 20,
            _ => 1,
        };
        let v = if self.tier == Tier::Quick { quick.saturating_mul(8).min(thorough.max(quick)) } else { thorough.saturating_mul(tm) };
        ((v as u128 * self.scale_pct as u128 / 100) as u64).max(1)
    }
    pub fn is_thorough(&self) -> bool {
        self.tier == Tier::Thorough
    }
}

#[derive(Clone, Debug)]
pub struct Violation {
    pub monitor: String,
    pub stream: String,
    pub index: u64,
    /// stable signature of the witness (monitor + type + exact input)
    pub sig: String,
    pub detail: String,
}

pub struct Local {
    pub evals: u64,
    pub nontrivial: HashSet<u64>,
    pub hist: BTreeMap<&'static str, BTreeMap<String, u64>>,
    pub counters: BTreeMap<&'static str, u64>,
    pub samples: Vec<(String, u64, J)>,
    pub violations: Vec<Violation>,
    pub violations_total: u64,
    pub inconclusive: Vec<String>,
    pub stream: String,
    pub index: u64,
    pub verbose: bool,
    samples_in_stream: u32,
}

const MAX_VIOL_PER_THREAD: usize = 12;
const SAMPLES_PER_STREAM: u32 = 2;

impl Local {
    pub fn new(verbose: bool) -> Self {
        Local {
            evals: 0,
            nontrivial: HashSet::new(),
            hist: BTreeMap::new(),
            counters: BTreeMap::new(),
            samples: Vec::new(),
            violations: Vec::new(),
            violations_total: 0,
            inconclusive: Vec::new(),
            stream: String::new(),
            index: 0,
            verbose,
            samples_in_stream: 0,
        }
    }
    #[inline]
    pub fn eval(&mut self, n: u64) {
        self.evals += n;
    }
    #[inline]
    pub fn nt(&mut self, fp: u64) {
        self.nontrivial.insert(fp);
    }
    pub fn hist(&mut self, name: &'static str, key: impl Into<String>) {
        *self.hist.entry(name).or_default().entry(key.into()).or_insert(0) += 1;
    }
    pub fn histn(&mut self, name: &'static str, key: u64) {
        self.hist(name, format!("{:02}", key));
    }
    #[inline]
    pub fn count(&mut self, name: &'static str, n: u64) {
        *self.counters.entry(name).or_insert(0) += n;
    }
    /// offer a sample; the first few of every stream (per thread) are kept
    pub fn sample(&mut self, f: impl FnOnce() -> J) {
        if self.samples_in_stream < SAMPLES_PER_STREAM {
            self.samples_in_stream += 1;
            let j = f();
            self.samples.push((self.stream.clone(), self.index, j));
        }
    }
    pub fn wants_sample(&self) -> bool {
        self.samples_in_stream < SAMPLES_PER_STREAM
    }
    pub fn violation(&mut self, monitor: &str, sig: String, detail: String) {
        self.violations_total += 1;
        if self.verbose {
            eprintln!("VIOLATION-DETAIL monitor={} sig={} :: {}", monitor, sig, detail);
        }
        if self.violations.len() < MAX_VIOL_PER_THREAD {
            self.violations.push(Violation {
                monitor: monitor.to_string(),
                stream: self.stream.clone(),
                index: self.index,
                sig,
                detail,
            });
        }
    }
    /// assert-like monitor primitive
    #[inline]
    pub fn check(&mut self, ok: bool, monitor: &str, f: impl FnOnce() -> (String, String)) -> bool {
        if !ok {
            let (sig, detail) = f();
            self.violation(monitor, sig, detail);
        }
        ok
    }
    pub fn inconclusive(&mut self, why: impl Into<String>) {
        let w = why.into();
        if self.verbose {
            eprintln!("INCONCLUSIVE-DETAIL {}", w);
        }
        if self.inconclusive.len() < 8 {
            self.inconclusive.push(w);
        }
    }
    fn merge(&mut self, o: Local) {
        self.evals += o.evals;
        self.nontrivial.extend(o.nontrivial);
        for (k, m) in o.hist {
            let e = self.hist.entry(k).or_default();
            for (kk, v) in m {
                *e.entry(kk).or_insert(0) += v;
            }
        }
        for (k, v) in o.counters {
            *self.counters.entry(k).or_insert(0) += v;
        }
        self.samples.extend(o.samples);
        self.violations.extend(o.violations);
        self.violations_total += o.violations_total;
        self.inconclusive.extend(o.inconclusive);
    }
}

// ---------------------------------------------------------------- totality monitor

thread_local! {
    static LAST_PANIC: RefCell<Option<String>> = RefCell::new(None);
}

pub fn install_panic_hook() {
    std::panic::set_hook(Box::new(|info| {
        let msg = if let Some(s) = info.payload().downcast_ref::<&str>() {
            (*s).to_string()
        } else if let Some(s) = info.payload().downcast_ref::<String>() {
            s.clone()
        } else {
            "<non-string panic payload>".to_string()
        };
        let loc = info
            .location()
            .map(|l| format!("{}:{}", l.file(), l.line()))
            .unwrap_or_default();
        LAST_PANIC.with(|p| *p.borrow_mut() = Some(format!("{} @ {}", msg, loc)));
    }));
}

/// Run `f`; a panic becomes Err(message @ location).
pub fn guard<T>(f: impl FnOnce() -> T) -> Result<T, String> {
    match catch_unwind(AssertUnwindSafe(f)) {
        Ok(v) => Ok(v),
        Err(_) => Err(LAST_PANIC
            .with(|p| p.borrow_mut().take())
            .unwrap_or_else(|| "<panic>".to_string())),
    }
}

// ---------------------------------------------------------------- streams

pub struct Stream<'a> {
    pub name: &'static str,
    pub count: u64,
    /// how many indices a worker grabs at once
    pub grain: u64,
    pub f: Box<dyn Fn(u64, &mut Rng, &mut Local) + Sync + 'a>,
}

impl<'a> Stream<'a> {
    pub fn new(
        name: &'static str,
        count: u64,
        f: impl Fn(u64, &mut Rng, &mut Local) + Sync + 'a,
    ) -> Self {
        let grain = (count / 2048).clamp(1, 256);
        Stream { name, count, grain, f: Box::new(f) }
    }
    pub fn grain(mut self, g: u64) -> Self {
        self.grain = g.max(1);
        self
    }
}

pub struct RunResult {
    pub local: Local,
    pub stream_counts: Vec<(String, u64)>,
    pub wall_s: f64,
}

/// Runs all streams over `opts.threads` workers.  The outcome does not depend
/// on thread timing: every case derives its PRNG from (seed, stream, index).
pub fn run_streams(opts: &Opts, streams: Vec<Stream>) -> RunResult {
    let start = Instant::now();
    let mut merged = Local::new(false);
    let mut stream_counts = Vec::new();
    if let Some((sname, idx)) = &opts.only {
        let mut l = Local::new(true);
        let mut found = false;
        for s in &streams {
            if s.name == sname {
                found = true;
                l.stream = s.name.to_string();
                l.index = *idx;
                let mut rng = Rng::for_case(opts.seed, &format!("{}/{}", opts.prop, s.name), *idx);
                let r = guard(|| (s.f)(*idx, &mut rng, &mut l));
                if let Err(p) = r {
                    l.violation(
                        "totality",
                        format!("{}|{}|case-panic|{}", opts.prop, s.name, p),
                        format!("unexpected panic while running case: {}", p),
                    );
                }
            }
        }
        if !found {
            l.inconclusive(format!("replay: no such stream {}", sname));
        }
        return RunResult { local: l, stream_counts, wall_s: start.elapsed().as_secs_f64() };
    }
    for s in &streams {
        if opts.skip.iter().any(|x| x == s.name) {
            continue;
        }
        // sharding maps the j-th case of this process to index shard.0 + j * shard.1
        let (sh_i, sh_n) = (opts.shard.0, opts.shard.1.max(1));
        let avail = if s.count > sh_i { (s.count - sh_i + sh_n - 1) / sh_n } else { 0 };
        let count = if opts.max_cases > 0 { avail.min(opts.max_cases) } else { avail };
        let s = &Stream { name: s.name, count, grain: s.grain, f: Box::new(move |j, r, l| (s.f)(sh_i + j * sh_n, r, l)) };
        stream_counts.push((s.name.to_string(), s.count));
        let next = AtomicU64::new(0);
        let results: Mutex<Vec<Local>> = Mutex::new(Vec::new());
        let nthreads = opts.threads.max(1).min(((s.count + s.grain - 1) / s.grain).max(1) as usize);
        std::thread::scope(|scope| {
            for _ in 0..nthreads {
                scope.spawn(|| {
                    let mut l = Local::new(false);
                    l.stream = s.name.to_string();
                    let pname = format!("{}/{}", opts.prop, s.name);
                    loop {
                        let lo = next.fetch_add(s.grain, Ordering::Relaxed);
                        if lo >= s.count {
                            break;
                        }
                        let hi = (lo + s.grain).min(s.count);
                        for j in lo..hi {
                            let idx = sh_i + j * sh_n;
                            l.index = idx;
                            if opts.trace_cases {
                                eprintln!("CASE {} {}", pname, idx);
                            }
                            let mut rng = Rng::for_case(opts.seed, &pname, idx);
                            let r = guard(|| (s.f)(j, &mut rng, &mut l));
                            if let Err(p) = r {
                                l.violation(
                                    "totality",
                                    format!("{}|{}|case-panic|{}", opts.prop, s.name, p),
                                    format!("unexpected panic while running case: {}", p),
                                );
                            }
                        }
                    }
                    results.lock().unwrap().push(l);
                });
            }
        });
        for l in results.into_inner().unwrap() {
            merged.merge(l);
        }
    }
    RunResult { local: merged, stream_counts, wall_s: start.elapsed().as_secs_f64() }
}

// ---------------------------------------------------------------- output

pub struct Report {
    pub rule: String,
    pub assumptions: Vec<String>,
    pub exhaustive: bool,
    /// minimum distinct_nontrivial below which the run is inconclusive
    pub min_nontrivial: u64,
    pub extra: Vec<(String, J)>,
}

pub fn finish(opts: &Opts, rr: RunResult, rep: Report) -> i32 {
    let mut l = rr.local;
    // deterministic sample choice: lowest indices per stream
    l.samples.sort_by(|a, b| (a.0.as_str(), a.1).cmp(&(b.0.as_str(), b.1)));
    let mut samples = Vec::new();
    let mut last: Option<String> = None;
    let mut n_in = 0;
    for (s, i, j) in l.samples.into_iter() {
        if last.as_deref() != Some(s.as_str()) {
            last = Some(s.clone());
            n_in = 0;
        }
        if n_in < SAMPLES_PER_STREAM {
            n_in += 1;
            samples.push(J::obj().set("stream", J::s(s)).set("index", J::U(i)).set("case", j));
        }
    }
    if samples.len() > 24 {
        samples.truncate(24);
    }
    l.violations.sort_by(|a, b| (a.stream.as_str(), a.index, a.sig.as_str()).cmp(&(b.stream.as_str(), b.index, b.sig.as_str())));
    let distinct = l.nontrivial.len() as u64;
    if opts.only.is_none() && opts.max_cases == 0 && distinct < rep.min_nontrivial {
        l.inconclusive.push(format!(
            "monitor observed only {} distinct non-trivial cases (minimum {})",
            distinct, rep.min_nontrivial
        ));
    }
    let mut hist = J::obj();
    for (k, m) in &l.hist {
        hist.put(k, J::from_map(m));
    }
    let mut counters = J::obj();
    for (k, v) in &l.counters {
        counters.put(k, J::U(*v));
    }
    let mut out = J::obj()
        .set("property", J::s(opts.prop.to_uppercase()))
        .set("config", J::s(opts.config.clone()))
        .set("tier", J::s(if opts.tier == Tier::Quick { "quick" } else { "thorough" }))
        .set("seed", J::U(opts.seed))
        .set("evaluations", J::U(l.evals))
        .set("distinct_nontrivial", J::U(distinct))
        .set("rule", J::s(rep.rule))
        .set("exhaustive", J::B(rep.exhaustive))
        .set("samples", J::A(samples))
        .set("streams", J::O(rr.stream_counts.iter().map(|(k, v)| (k.clone(), J::U(*v))).collect()))
        .set("hist", hist)
        .set("counters", counters)
        .set("assumptions", J::A(rep.assumptions.into_iter().map(J::S).collect()))
        .set(
            "violations",
            J::A(l
                .violations
                .iter()
                .take(40)
                .map(|v| {
                    J::obj()
                        .set("monitor", J::s(v.monitor.clone()))
                        .set("stream", J::s(v.stream.clone()))
                        .set("index", J::U(v.index))
                        .set("sig", J::s(v.sig.clone()))
                        .set("detail", J::s(v.detail.clone()))
                })
                .collect()),
        )
        .set("violations_total", J::U(l.violations_total))
        .set("inconclusive", J::A(l.inconclusive.iter().cloned().map(J::S).collect()))
        .set("wall_s", J::F(rr.wall_s));
    for (k, v) in rep.extra {
        out.put(&k, v);
    }
    let text = out.to_string();
    match &opts.out {
        Some(p) => {
            if let Err(e) = std::fs::write(p, &text) {
                eprintln!("cannot write {}: {}", p, e);
                return 3;
            }
        }
        None => println!("{}", text),
    }
    if l.violations_total > 0 {
        1
    } else if !l.inconclusive.is_empty() {
        2
    } else {
        0
    }
}

//! C03 - the hash depends only on the byte stream, not on how it is fed.

use crate::ctx::{finish, guard, run_streams, Local, Opts, Report, Stream};
use crate::json::{bytes_desc, J};
use crate::mon::common;
use crate::mon::genhist::{self, compare_obs, feed, observe, GModel, Obs, FORM_NAMES, N_FORMS};
use crate::rng::{fnv64, Rng};
use crate::work::bytes::{self, Words};
use ssdeep::Generator;

fn sig(data: &[u8], hist: &str) -> String {
    format!("C03|len={}|fnv={:016x}|{}", data.len(), fnv64(data), hist)
}

#[allow(unused_variables)]
fn skip_prefix(g: &mut Generator, prefix: u64) {
    #[cfg(a4lg_ffuzzy_verif)]
    if prefix > 0 {
        g.verif_skip_zero_prefix(prefix);
    }
}

/// histories that start after a multi-GiB zero prefix (hook): delivery forms, clones and intermediate
/// finalizations at the largest block sizes, totals ending exactly at / just below the 192 GiB limit
#[cfg(a4lg_ffuzzy_verif)]
pub fn large_offset_case(l: &mut Local, rng: &mut Rng, words: &Words, i: u64) {
    let mut payload = Vec::new();
    let lv = *rng.pick(&[30usize, 30, 30, 29]);
    for _ in 0..rng.urange(20, 70) {
        payload.extend_from_slice(&words[lv][rng.usize_below(words[lv].len())]);
        if rng.chance(1, 2) {
            payload.extend_from_slice(&[0u8; 7]);
        }
    }
    if rng.chance(1, 2) {
        payload.push(rng.byte() | 1);
    }
    let max = genhist::MAX_INPUT;
    let total = match i % 5 {
        0 => max,
        1 => max - rng.range(1, 3),
        2 => (96u64 << 30) + rng.range(1, 1 << 20),
        3 => (96u64 << 30) + rng.below(96u64 << 30),
        _ => (1u64 << rng.range(33, 37)) + rng.below(1 << 30),
    };
    let prefix = total - payload.len() as u64;
    let mut m = GModel::new();
    m.zeros(prefix);
    m.update(&payload);
    let want = m.expect();
    random_history(l, rng, &payload, &want, true, prefix);
    l.count("large_offset_histories", 1);
    if total == max {
        l.count("histories_ending_exactly_at_192GiB", 1);
    }
}

/// exhaustive two-chunk splits x ordered pairs of delivery forms
fn two_chunk_exhaustive(l: &mut Local, data: &[u8], want: &Obs, nt: bool) {
    for cut in 0..=data.len() {
        for fa in 0..N_FORMS {
            for fb in 0..N_FORMS {
                let r = guard(|| {
                    let mut g = Generator::new();
                    feed(&mut g, fa, &data[..cut]);
                    feed(&mut g, fb, &data[cut..]);
                    observe(&g)
                });
                let hist = format!("{}[..{}];{}[{}..]", FORM_NAMES[fa as usize], cut, FORM_NAMES[fb as usize], cut);
                match r {
                    Ok(got) => {
                        compare_obs(l, "delivery-independence", &sig(data, &hist), &format!("payload of {} bytes fed as {}", data.len(), hist), &got, want);
                    }
                    Err(p) => l.violation("totality", sig(data, &hist), format!("generator panicked when fed as {}: {}", hist, p)),
                }
                if nt && fa != fb {
                    l.nt(fnv64(data) ^ ((cut as u64) << 8) ^ (fa * N_FORMS + fb));
                }
            }
        }
    }
    l.count("two_chunk_histories", (data.len() as u64 + 1) * N_FORMS * N_FORMS);
}

/// random multi-chunk history with clones and mid-stream finalizations
fn random_history(l: &mut Local, rng: &mut Rng, data: &[u8], want: &Obs, nt: bool, prefix: u64) {
    let nchunks = rng.urange(1, 40);
    let mut cuts: Vec<usize> = (0..nchunks - 1).map(|_| rng.usize_below(data.len() + 1)).collect();
    cuts.push(0);
    cuts.push(data.len());
    cuts.sort_unstable();
    let mut hist = String::new();
    let mut forms_used = 0u32;
    let r = guard(|| {
        let mut g = Generator::new();
        skip_prefix(&mut g, prefix);
        let mut clones: Vec<(Generator, usize)> = Vec::new();
        let mut mids: Vec<(usize, Obs)> = Vec::new();
        for w in cuts.windows(2) {
            let form = rng.below(N_FORMS);
            forms_used |= 1 << form;
            feed(&mut g, form, &data[w[0]..w[1]]);
            hist.push_str(&format!("{}[{}..{}];", FORM_NAMES[form as usize], w[0], w[1]));
            match rng.below(8) {
                0 => {
                    if rng.chance(1, 2) {
                        clones.push((g.clone(), w[1]));
                        hist.push_str("clone;");
                    } else {
                        // clone_from onto a destination that already digested another stream (full
                        // contexts, eliminations, a declared size): nothing of it may survive
                        let mut dst = Generator::new();
                        let n = *rng.pick(&[100usize, 700, 3000, 9000, 40000]);
                        let kind = *rng.pick(&[0usize, 4]);
                        let junk = bytes::gen_kind(rng, kind, n);
                        if rng.chance(1, 3) {
                            let _ = dst.set_fixed_input_size(n as u64);
                        }
                        dst.update(&junk);
                        if rng.chance(1, 2) {
                            let _ = dst.finalize();
                        }
                        dst.clone_from(&g);
                        clones.push((dst, w[1]));
                        hist.push_str(&format!("clone_from(onto a generator that digested {} bytes);", n));
                    }
                }
                1 => {
                    // finalizing must not disturb later updates; its result is the hash of the prefix
                    mids.push((w[1], observe(&g)));
                    hist.push_str("finalize*;");
                }
                _ => {}
            }
        }
        let fin = observe(&g);
        // continue every clone with the rest of the payload through other forms
        let mut clone_obs = Vec::new();
        for (mut c, at) in clones {
            let form = rng.below(N_FORMS);
            feed(&mut c, form, &data[at..]);
            clone_obs.push((at, form, observe(&c)));
        }
        (fin, mids, clone_obs)
    });
    match r {
        Err(p) => l.violation("totality", sig(data, &hist), format!("generator panicked during history {}: {}", hist, p)),
        Ok((fin, mids, clone_obs)) => {
            compare_obs(l, "delivery-independence", &sig(data, &hist), &format!("payload of {} bytes fed as {}", data.len(), hist), &fin, want);
            for (at, form, ob) in clone_obs {
                compare_obs(l, "clone-independence", &sig(data, &format!("{}clone@{}+{}", hist, at, FORM_NAMES[form as usize])), &format!("clone taken after {} bytes and continued by {} (history {})", at, FORM_NAMES[form as usize], hist), &ob, want);
            }
            for (at, ob) in mids {
                let mut m = GModel::new();
                if prefix > 0 {
                    m.zeros(prefix);
                }
                m.update(&data[..at]);
                compare_obs(l, "intermediate-finalize", &sig(data, &format!("{}mid@{}", hist, at)), &format!("intermediate finalization after {} bytes (history {})", at, hist), &ob, &m.expect());
            }
        }
    }
    if nt && forms_used.count_ones() >= 2 {
        l.nt(fnv64(hist.as_bytes()) ^ fnv64(data));
    }
    l.sample(|| J::obj().set("payload", bytes_desc(data)).set("history", J::s(hist.chars().take(400).collect::<String>())));
}

#[cfg(feature = "ffstd")]
struct ChunkReader<'a> {
    data: &'a [u8],
    pos: usize,
    sizes: Vec<usize>,
    k: usize,
}
#[cfg(feature = "ffstd")]
impl<'a> std::io::Read for ChunkReader<'a> {
    fn read(&mut self, buf: &mut [u8]) -> std::io::Result<usize> {
        let want = self.sizes[self.k % self.sizes.len()];
        self.k += 1;
        let n = want.min(buf.len()).min(self.data.len() - self.pos);
        buf[..n].copy_from_slice(&self.data[self.pos..self.pos + n]);
        self.pos += n;
        Ok(n)
    }
}

pub fn check_payload(l: &mut Local, rng: &mut Rng, data: &[u8], exhaustive: bool, n_random: usize) {
    let mut m = GModel::new();
    m.update(data);
    let want = m.expect();
    // the one-call form itself against the oracle
    let one = guard(|| {
        let mut g = Generator::new();
        g.update(data);
        observe(&g)
    });
    match one {
        Ok(got) => {
            compare_obs(l, "one-call", &sig(data, "update[..]"), "whole payload in one update() call", &got, &want);
        }
        Err(p) => {
            l.violation("totality", sig(data, "update[..]"), format!("generator panicked: {}", p));
            return;
        }
    }
    let nt = m.st.n_reduce >= 1;
    if nt {
        l.count("payloads_with_elimination", 1);
    }
    if exhaustive {
        two_chunk_exhaustive(l, data, &want, nt);
    }
    for _ in 0..n_random {
        random_history(l, rng, data, &want, nt, 0);
    }
    #[cfg(feature = "ffstd")]
    {
        let hb = guard(|| ssdeep::hash_buf(data).map(|h| crate::util::text_of(&h)));
        l.eval(1);
        l.check(matches!(&hb, Ok(Ok(t)) if *t == want.f), "hash_buf", || (sig(data, "hash_buf"), format!("hash_buf gives {:?} expected {}", hb, want.f)));
        let sizes: Vec<usize> = match rng.below(6) {
            0 => vec![1],
            1 => vec![2, 7],
            2 => vec![4095, 1, 32767],
            3 => vec![32768],
            4 => vec![32769, 3],
            _ => (0..5).map(|_| rng.urange(1, 40000)).collect(),
        };
        let desc = format!("hash_stream(reads {:?})", sizes);
        let hs = guard(|| {
            let mut rd = ChunkReader { data, pos: 0, sizes: sizes.clone(), k: 0 };
            ssdeep::hash_stream(&mut rd).map(|h| crate::util::text_of(&h)).map_err(|e| format!("{:?}", e))
        });
        l.eval(1);
        l.check(matches!(&hs, Ok(Ok(t)) if *t == want.f), "hash_stream", || (sig(data, &desc), format!("{} gives {:?} expected {}", desc, hs, want.f)));
    }
}

pub fn run(o: &Opts) -> i32 {
    let mut pre = Vec::new();
    if let Err(e) = common::selfcheck(o) {
        pre.push(format!("oracle O1 failed its calibration: {}", e));
    }
    let words: Words = match common::words_or_inconclusive() {
        Ok(w) => w,
        Err(e) => {
            pre.push(e);
            vec![vec![[0u8; 7]]; 33]
        }
    };
    let wref = &words;
    let mut streams: Vec<Stream> = Vec::new();
    // small payloads: every split point x every ordered pair of forms
    streams.push(
        Stream::new("exhaustive-two-chunk-splits", o.n(20, 1500), move |i, rng: &mut Rng, l: &mut Local| {
            let data = match i % 4 {
                0 => bytes::gen_kind(rng, 0, rng.clone().urange(400, 700)),
                1 => {
                    let (mut d, _) = bytes::gen_w2(rng, wref, 64);
                    d.truncate(700);
                    d
                }
                2 => bytes::gen_kind(rng, 4, 640),
                _ => {
                    // trigger windows at chosen places: word, zeros, word ...
                    let mut d = bytes::gen_kind(rng, 0, 450);
                    for k in 0..6 {
                        let w = wref[(i as usize / 4 + k) % 31][0];
                        let p = 20 + k * 60;
                        d[p..p + 7].copy_from_slice(&w);
                    }
                    d
                }
            };
            check_payload(l, rng, &data, true, 2);
        })
        .grain(1),
    );
    streams.push(Stream::new("random-histories", o.n(6_000, 400_000), move |i, rng: &mut Rng, l: &mut Local| {
        let data = if i % 3 == 0 {
            bytes::gen_w2(rng, wref, 8192).0
        } else {
            bytes::gen_w1(rng, 96 * 1024)
        };
        let data = if bytes::tiny() { data[..data.len().min(420)].to_vec() } else { data };
        check_payload(l, rng, &data, false, if bytes::tiny() { 1 } else { 4 });
    }));
    // payload sizes around the 32 KiB buffer of hash_stream
    streams.push(
        Stream::new("stream-buffer-borders", 7 * o.n(4, 40), |i, rng: &mut Rng, l: &mut Local| {
            let sz = [32767usize, 32768, 32769, 65535, 65536, 65537, 100_001][(i % 7) as usize];
            let data = bytes::gen_kind(rng, (i / 7) as usize % 5, sz);
            check_payload(l, rng, &data, false, 2);
        })
        .grain(1),
    );
    #[cfg(a4lg_ffuzzy_verif)]
    streams.push(Stream::new("large-offset-histories", o.n(1500, 150_000), move |i, rng: &mut Rng, l: &mut Local| {
        large_offset_case(l, rng, wref, i);
    }));
    let mut rr = run_streams(o, streams);
    rr.local.inconclusive.extend(pre);
    finish(
        o,
        rr,
        Report {
            rule: "payloads from W1/W2 (0..96 KiB). For payloads <= 700 bytes: EVERY two-chunk split offset x every ordered pair of the eight delivery forms (update, update_by_iter with an exact-size iterator, with filter and with flat_map iterators whose size_hint is inexact, update_by_byte, += &[u8], += &[u8;N], += u8). Otherwise random 1..40-chunk histories with clones (continued separately) and intermediate finalizations (which must equal the hash of the prefix and must not disturb the rest), plus hash_buf and hash_stream under short-read patterns around its 32 KiB buffer; with the hook, the same random histories after a zero prefix of 8..192 GiB (level-29/30 trigger words, totals exactly at / just below the 192 GiB limit) so that clones, delivery forms and intermediate finalizations are also observed at the largest block sizes. Every observation (input_size and four finalizers) is compared with oracle O1 over the payload (so a defect common to all delivery forms is not masked). evaluations = compared observations. Non-trivial = history mixes >= 2 delivery forms and the oracle performed >= 1 block-size elimination; distinct by (payload, history).".into(),
            assumptions: vec!["oracle O1 as in C01 (re-calibrated this run)".into()],
            exhaustive: false,
            min_nontrivial: 5000 * o.scale_pct / 100,
            extra: vec![],
        },
    )
}

//! Shared pieces of the monitors: oracle self-calibration, repo path, word table.
#![allow(dead_code)]

use crate::ctx::Opts;
use crate::oracle::refctph::{State, FLAG_ELIMSEQ, FLAG_NOTRUNC};
use crate::work::bytes::Words;

pub fn repo_path(o: &Opts) -> String {
    for e in &o.extra {
        if let Some(p) = e.strip_prefix("repo=") {
            return p.to_string();
        }
    }
    std::env::var("VERIF_REPO").unwrap_or_else(|_| "/repo".to_string())
}

/// Oracle O1 against the real-ssdeep vectors shipped in the repository.
/// A failure here means the *oracle* cannot be trusted => inconclusive.
pub fn selfcheck(o: &Opts) -> Result<u64, String> {
    if crate::work::bytes::tiny() {
        // interpreter / sanitizer runs decide memory safety only; the calibration runs in the native checks
        return Ok(0);
    }
    let root = format!("{}/ffuzzy", repo_path(o));
    let idx = std::fs::read_to_string(format!("{}/data/testsuite/generate-small.ssdeep.txt", root))
        .map_err(|e| format!("cannot read vector index: {}", e))?;
    let mut n = 0u64;
    for line in idx.lines() {
        if line.is_empty() || line.starts_with('#') {
            continue;
        }
        let t: Vec<&str> = line.split_whitespace().collect();
        if t.len() != 3 {
            return Err(format!("bad index line {:?}", line));
        }
        let data = std::fs::read(format!("{}/{}", root, t[0])).map_err(|e| format!("{}: {}", t[0], e))?;
        let flags: u32 = t[1].parse().map_err(|_| format!("bad flags in {:?}", line))?;
        let mut s = State::new();
        s.update(&data);
        let elim = if flags & 4 != 0 { FLAG_ELIMSEQ } else { 0 };
        if flags & 1 != 0 {
            let d = s.digest(elim).map_err(|e| format!("{:?}", e))?;
            if d != t[2] {
                return Err(format!("O1 != ssdeep vector for {} (trunc): {} vs {}", t[0], d, t[2]));
            }
            n += 1;
        }
        if flags & 2 != 0 {
            let d = s.digest(elim | FLAG_NOTRUNC).map_err(|e| format!("{:?}", e))?;
            if d != t[2] {
                return Err(format!("O1 != ssdeep vector for {} (notrunc): {} vs {}", t[0], d, t[2]));
            }
            n += 1;
        }
    }
    if n < 500 {
        return Err(format!("only {} vectors found", n));
    }
    // the two >= 96 GiB literals known from ssdeep (all-zero input has hash 3::, so use
    // the zero-jump + level-30 word construction used by the repository's own tests)
    Ok(n)
}

pub fn words_or_inconclusive() -> Result<Words, String> {
    crate::work::words::words()
}

//! C16 - equality, hashing and ordering are consistent and follow the documented order.

use crate::ctx::{finish, guard, run_streams, Local, Opts, Report, Stream};
use crate::for_six_types;
use crate::json::J;
use crate::mon::c06::hash_stream_of;
use crate::oracle::model::HV;
use crate::rng::Rng;
use crate::types::HashLike;
use crate::work::hashes;
use std::cmp::Ordering;

/// a pool of closely related values (common prefixes, trailing symbol-0 tails, same normalization)
fn pool(rng: &mut Rng, s2: usize, norm: bool) -> Vec<HV> {
    let base = hashes::gen_hv(rng, s2, norm);
    let mut v = vec![base.clone()];
    let fix = |mut h: HV| -> HV {
        h.bh1.truncate(64);
        h.bh2.truncate(s2);
        if norm {
            h = h.normalized();
        }
        h
    };
    let n = rng.urange(4, 7);
    for _ in 0..n {
        let mut h = rng.pick(&v).clone();
        match rng.below(16) {
            0 => h.bh1.push(0), // trailing 'A'
            1 => h.bh2.push(0),
            2 => {
                h.bh1.pop();
            }
            3 => {
                h.bh2.pop();
            }
            4 => {
                if let Some(x) = h.bh1.last_mut() {
                    *x = (*x + 1) % 64;
                }
            }
            5 => {
                if !h.bh1.is_empty() {
                    let p = rng.usize_below(h.bh1.len());
                    h.bh1[p] = rng.below(64) as u8;
                }
            }
            6 => {
                if !h.bh2.is_empty() {
                    let p = rng.usize_below(h.bh2.len());
                    h.bh2[p] = rng.below(64) as u8;
                }
            }
            7 => h.log = hashes::gen_log(rng),
            8 => {
                // lengthen a run (same normalization for raw/dual types)
                if !h.bh1.is_empty() {
                    let p = rng.usize_below(h.bh1.len());
                    let s = h.bh1[p];
                    for _ in 0..rng.urange(1, 5) {
                        h.bh1.insert(p, s);
                    }
                }
            }
            9 => std::mem::swap(&mut h.bh1, &mut h.bh2),
            10 => {
                h.bh1.clear();
            }
            11 => {
                // the normalization of an existing value (same normalized part, no run data)
                h = h.normalized();
            }
            12 => {
                // a block hash of exactly maximum length made of runs whose lengths are multiples of four
                let s0 = rng.below(64) as u8;
                let parts = *rng.pick(&[1usize, 2, 4, 8, 16]);
                let per = 64 / parts;
                h.bh1 = (0..parts).flat_map(|k| std::iter::repeat((s0 + k as u8 * 5) % 64).take(per)).collect();
                if rng.chance(1, 2) {
                    h.bh2 = h.bh1.clone();
                }
            }
            13 => {
                h.bh2.clear();
            }
            14 => {
                // full length, no runs
                h.bh1 = (0..64).map(|k| ((k * 7 + rng.clone().usize_below(3)) % 64) as u8).collect();
            }
            _ => {}
        }
        v.push(fix(h));
    }
    v
}

fn build_any<T: HashLike>(v: &HV, how: u64) -> T {
    match how % 6 {
        0 => T::build(v),
        1 => T::parse_bytes(v.text().as_bytes()).expect("valid text refused"),
        2 => T::build_dirty(v),
        5 => {
            // Clone::clone_from onto an object that holds a longer, different value
            let full = HV { log: 29, bh1: (0..64).map(|i| (63 - i) as u8).collect(), bh2: (0..T::S2).map(|i| ((i * 5) % 64) as u8 | 1).collect() };
            let mut d = T::build(&full);
            d.clone_from(&T::build(v));
            d
        }
        // through a conversion into a destination that still holds a longer value
        _ => T::build_conv(v, how / 6).unwrap_or_else(|| T::build_dirty(v)),
    }
}

pub fn check_type<T: HashLike>(l: &mut Local, rng: &mut Rng) {
    let vals = pool(rng, T::S2, T::NORM);
    let objs: Vec<T> = match guard(|| vals.iter().map(|v| build_any::<T>(v, rng.next())).collect::<Vec<T>>()) {
        Ok(o) => o,
        Err(p) => {
            l.violation("totality", format!("C16|{}|build|{}", T::NAME, vals[0].text()), format!("building {} objects panicked: {}", T::NAME, p));
            return;
        }
    };
    let n = objs.len();
    let sig = |w: &str, a: &HV, b: &HV| format!("C16|{}|{}|{}|{}", T::NAME, w, a.text(), b.text());
    // expected order between two values, None = implementation-defined (dual, same normalized part)
    let expected = |a: &HV, b: &HV| -> Option<Ordering> {
        if !T::DUAL {
            Some(a.cmp_key(b))
        } else {
            let (na, nb) = (a.normalized(), b.normalized());
            if na != nb {
                Some(na.cmp_key(&nb))
            } else if a == b {
                Some(Ordering::Equal)
            } else {
                None
            }
        }
    };
    let res = guard(|| {
        for i in 0..n {
            for j in 0..n {
                let (x, y, vx, vy) = (&objs[i], &objs[j], &vals[i], &vals[j]);
                l.eval(1);
                let eq = x == y;
                let same_text = vx.text() == vy.text();
                l.check(eq == same_text && eq == (x.text() == y.text()), "eq-iff-text", || {
                    (sig("eq", vx, vy), format!("{}: == is {} but the texts {} and {} are {}", T::NAME, eq, vx.text(), vy.text(), if same_text { "equal" } else { "different" }))
                });
                if eq {
                    l.check(hash_stream_of(x) == hash_stream_of(y), "eq-implies-hash", || {
                        (sig("hash", vx, vy), format!("{}: equal objects ({}) feed different data to the Hasher", T::NAME, vx.text()))
                    });
                }
                let c = x.cmp(y);
                let rc = y.cmp(x);
                l.check(c == rc.reverse(), "order-antisymmetric", || (sig("antisym", vx, vy), format!("{}: cmp(a,b)={:?} but cmp(b,a)={:?} for {} / {}", T::NAME, c, rc, vx.text(), vy.text())));
                l.check((c == Ordering::Equal) == eq, "order-equal-iff-eq", || (sig("cmp-eq", vx, vy), format!("{}: cmp gives {:?} but == gives {} for {} / {}", T::NAME, c, eq, vx.text(), vy.text())));
                l.check(x.partial_cmp(y) == Some(c) && (x < y) == (c == Ordering::Less) && (x > y) == (c == Ordering::Greater) && (x <= y) == (c != Ordering::Greater), "partial-ord-consistent", || {
                    (sig("partial", vx, vy), format!("{}: partial_cmp / operators disagree with cmp for {} / {}", T::NAME, vx.text(), vy.text()))
                });
                if let Some(e) = expected(vx, vy) {
                    l.check(c == e, "documented-order", || {
                        (sig("order", vx, vy), format!("{}: cmp({}, {}) = {:?} but the documented order (block size, block hash 1 by symbol with a proper prefix first, block hash 2) gives {:?}", T::NAME, vx.text(), vy.text(), c, e))
                    });
                } else {
                    l.count("dual_same_normalized_part_pairs", 1);
                }
                if vx.log == vy.log && !vx.bh1.is_empty() && !vy.bh1.is_empty() && vx.bh1[0] == vy.bh1[0] && i < j {
                    l.nt(vx.fp() ^ vy.fp().rotate_left(29) ^ crate::rng::fnv64(T::NAME.as_bytes()));
                }
            }
        }
        // transitivity on all triples
        for i in 0..n {
            for j in 0..n {
                for k in 0..n {
                    if objs[i].cmp(&objs[j]) != Ordering::Greater && objs[j].cmp(&objs[k]) != Ordering::Greater {
                        l.eval(1);
                        l.check(objs[i].cmp(&objs[k]) != Ordering::Greater, "order-transitive", || {
                            (format!("C16|{}|transitive|{}|{}|{}", T::NAME, vals[i].text(), vals[j].text(), vals[k].text()), format!("{}: a<=b and b<=c but a>c for {} / {} / {}", T::NAME, vals[i].text(), vals[j].text(), vals[k].text()))
                        });
                    }
                }
            }
        }
    });
    if let Err(p) = res {
        l.violation("totality", format!("C16|{}|panic|{}", T::NAME, vals[0].text()), format!("{}: comparing/hashing panicked: {}", T::NAME, p));
    }
}

fn check_sort<T: HashLike>(l: &mut Local, rng: &mut Rng, size: usize) {
    let mut vals: Vec<HV> = Vec::new();
    while vals.len() < size {
        vals.extend(pool(rng, T::S2, T::NORM));
    }
    vals.truncate(size);
    rng.shuffle(&mut vals);
    let r = guard(|| {
        let mut objs: Vec<(T, HV)> = vals.iter().map(|v| (build_any::<T>(v, rng.next()), v.clone())).collect();
        objs.sort_by(|a, b| a.0.cmp(&b.0));
        objs
    });
    l.eval(1);
    match r {
        Err(p) => l.violation("totality", format!("C16|{}|sort-panic", T::NAME), format!("sorting {} objects panicked: {}", T::NAME, p)),
        Ok(sorted) => {
            let mut ok = true;
            let mut at = 0;
            for w in 0..sorted.len().saturating_sub(1) {
                let (a, b) = (&sorted[w].1, &sorted[w + 1].1);
                let good = if T::DUAL { a.normalized().cmp_key(&b.normalized()) != Ordering::Greater } else { a.cmp_key(b) != Ordering::Greater };
                if !good {
                    ok = false;
                    at = w;
                    break;
                }
            }
            l.check(ok, "sort-follows-documented-order", || {
                (format!("C16|{}|sort|{}|{}", T::NAME, sorted[at].1.text(), sorted[at + 1].1.text()), format!("{}: after sort(), {} comes before {} which contradicts the documented order", T::NAME, sorted[at].1.text(), sorted[at + 1].1.text()))
            });
            l.count("sorted_vectors", 1);
        }
    }
}

pub fn run(o: &Opts) -> i32 {
    let mut streams: Vec<Stream> = Vec::new();
    streams.push(Stream::new("pools-pairs-triples", o.n(12_000, 1_000_000), |_i, rng: &mut Rng, l: &mut Local| {
        for_six_types!(T => { check_type::<T>(l, rng); });
        l.sample(|| J::obj().set("pool", J::A(pool(rng, 32, false).iter().map(|v| J::s(v.text())).collect())));
    }));
    streams.push(
        Stream::new("sorts", o.n(60, 3000), |_i, rng: &mut Rng, l: &mut Local| {
            for_six_types!(T => { check_sort::<T>(l, rng, 500); });
        })
        .grain(1),
    );
    let rr = run_streams(o, streams);
    finish(
        o,
        rr,
        Report {
            rule: "per type (all six): pools of 5..8 closely related values (trailing symbol-0 'A' tails, proper prefixes, single-symbol changes, lengthened runs sharing a normalization, swapped block hashes, other block sizes), objects built through different routes (checked constructor, parser, re-initialisation of an object that held a longer value, conversions - widening, narrowing, raw reinterpretation, dual expansion - into destinations that still hold a longer value). All ordered pairs: == iff equal texts, equal => identical Hasher input, cmp antisymmetric, Equal iff ==, PartialOrd and operators consistent, cmp = documented key order from the abstract model O8 (dual: order of the normalized parts when they differ, axioms only when they coincide); all triples: transitivity; sort() of shuffled vectors of 500 follows the documented order. Non-trivial = pair sharing block size and first symbol; distinct by (type, pair).".into(),
            assumptions: vec![],
            exhaustive: false,
            min_nontrivial: 5000 * o.scale_pct / 100,
            extra: vec![],
        },
    )
}

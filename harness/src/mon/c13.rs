//! C13 - size limits and block-size choice over the whole 0..192 GiB range
//! (through the cfg(a4lg_ffuzzy_verif) zero-prefix hook, itself validated on every run).

use crate::ctx::{finish, guard, run_streams, Local, Opts, Report, Stream};
use crate::json::{hex, J};
use crate::mon::common;
use crate::mon::genhist::{compare_obs, observe, GModel, MAX_INPUT};
use crate::rng::Rng;
use crate::util::block_index_of_text;
use crate::work::bytes::Words;
use ssdeep::Generator;

const PIECE_COUNTS: [usize; 12] = [0, 1, 31, 32, 33, 34, 62, 63, 64, 65, 66, 70];

/// suffix that creates chosen numbers of pieces at levels n-1, n, n+1
fn suffix_for(rng: &mut Rng, words: &Words, n: usize) -> Vec<u8> {
    let mut d = Vec::new();
    let mut plan: Vec<(usize, usize)> = Vec::new();
    let c_hi = *rng.pick(&PIECE_COUNTS);
    let c_n = *rng.pick(&PIECE_COUNTS);
    let c_lo = *rng.pick(&[0usize, 0, 1, 33, 70]);
    if n < 30 {
        plan.push((n + 1, c_hi));
    }
    plan.push((n, c_n));
    if n > 0 {
        plan.push((n - 1, c_lo));
    }
    if rng.chance(1, 3) {
        plan.push((30, *rng.pick(&[1usize, 2, 32, 40])));
    }
    rng.shuffle(&mut plan);
    let interleave = rng.chance(1, 2);
    if interleave {
        let mut left: Vec<(usize, usize)> = plan.clone();
        while left.iter().any(|x| x.1 > 0) {
            let k = rng.usize_below(left.len());
            if left[k].1 == 0 {
                continue;
            }
            left[k].1 -= 1;
            let lv = left[k].0;
            d.extend_from_slice(&words[lv][rng.usize_below(words[lv].len())]);
            d.extend_from_slice(&[0u8; 7]);
        }
    } else {
        for (lv, c) in plan {
            for _ in 0..c {
                d.extend_from_slice(&words[lv][rng.usize_below(words[lv].len())]);
                if rng.chance(3, 4) {
                    d.extend_from_slice(&[0u8; 7]);
                }
            }
        }
    }
    match rng.below(5) {
        0 => d.extend_from_slice(&[0u8; 7]), // roll == 0 at the end
        1 => d.push(rng.byte() | 1),
        2 => d.extend_from_slice(&words[32][rng.usize_below(words[32].len())]), // roll == 0, non-zero window
        _ => {}
    }
    d
}

#[cfg(a4lg_ffuzzy_verif)]
fn hooked(prefix: u64, hint: Option<u64>, suffix: &[u8]) -> (crate::mon::genhist::Obs, bool, (usize, usize, usize, bool, u64)) {
    let mut g = Generator::new();
    if let Some(h) = hint {
        let _ = g.set_fixed_input_size(h);
    }
    g.verif_skip_zero_prefix(prefix);
    g.update(suffix);
    (observe(&g), g.may_warn_about_small_input_size(), g.verif_probe())
}

#[allow(unused_variables)]
fn check_case(l: &mut Local, prefix: u64, suffix: &[u8], hint: Option<u64>, tag: &str) {
    #[cfg(a4lg_ffuzzy_verif)]
    {
        let mut m = GModel::new();
        if let Some(h) = hint {
            let _ = m.set_hint(h);
        }
        m.zeros(prefix);
        m.update(suffix);
        let want = m.expect();
        let sig = format!("C13|prefix={}|hint={:?}|suffix={}", prefix, hint, hex(suffix));
        match guard(|| hooked(prefix, hint, suffix)) {
            Err(p) => l.violation("totality", sig, format!("generator panicked for {} zero bytes + {}-byte suffix ({}): {}", prefix, suffix.len(), tag, p)),
            Ok((got, warn, probe)) => {
                compare_obs(l, "size-range", &sig, &format!("{} zero bytes + {}-byte crafted suffix ({}; total {})", prefix, suffix.len(), tag, prefix + suffix.len() as u64), &got, &want);
                let total = prefix + suffix.len() as u64;
                let basis = hint.filter(|h| *h <= MAX_INPUT).unwrap_or(total);
                l.eval(1);
                l.check(warn == (basis < 4097), "small-input-warning", || {
                    (format!("{}|warn", sig), format!("may_warn_about_small_input_size() is {} for size {} (declared {:?})", warn, total, hint))
                });
                if want.f.starts_with("Err(InputSizeTooLarge") {
                    l.count("too_large_rejected", 1);
                } else if !want.f.starts_with("Err") {
                    let idx = block_index_of_text(&want.f);
                    l.histn("out_block_index", idx as u64);
                    if idx >= 18 {
                        l.nt(crate::rng::fnv64(sig.as_bytes()));
                    }
                    if idx == 30 {
                        l.count("largest_block_size_outputs", 1);
                    }
                }
                l.histn("probe_bhidx_end", probe.1 as u64);
                if probe.3 {
                    l.count("probe_is_last", 1);
                }
                if total == MAX_INPUT {
                    l.count("exactly_192GiB", 1);
                }
            }
        }
        l.sample(|| J::obj().set("zero_prefix", J::U(prefix)).set("suffix_hex", J::s(hex(&suffix[..suffix.len().min(64)]))).set("suffix_len", J::U(suffix.len() as u64)).set("expected", J::s(want.f.clone())).set("kind", J::s(tag)));
    }
}

/// really feed `n` zero bytes (in 1 MiB chunks)
fn feed_zeros(g: &mut Generator, n: u64) {
    let buf = vec![0u8; 1 << 20];
    let mut left = n;
    while left > 0 {
        let k = left.min(buf.len() as u64) as usize;
        g.update(&buf[..k]);
        left -= k as u64;
    }
}

#[allow(unused_variables)]
fn validate_hook(l: &mut Local, n: u64, suffix: &[u8]) {
    // (i) real feeding against the oracle's real feeding: a difference is a violation of the library
    let mut real = Generator::new();
    feed_zeros(&mut real, n);
    let mut om = GModel::new();
    {
        let buf = vec![0u8; (n as usize).min(1 << 20)];
        let mut left = n;
        while left > 0 {
            let k = left.min(buf.len() as u64) as usize;
            om.update(&buf[..k]);
            left -= k as u64;
        }
    }
    let mut oj = GModel::new();
    oj.zeros(n);
    let mut real2 = real.clone();
    real2.update(suffix);
    om.update(suffix);
    oj.update(suffix);
    if om.expect() != oj.expect() {
        l.inconclusive(format!("oracle self-check: O1 jump_zeros({}) differs from O1 fed {} real zero bytes", n, n));
        return;
    }
    let sig = format!("C13|real-zeros={}|suffix={}", n, hex(suffix));
    let ok = compare_obs(l, "size-range-real", &sig, &format!("{} real zero bytes + suffix", n), &observe(&real2), &om.expect());
    l.count("hook_validations", 1);
    // (ii) hook against real feeding: a difference (with (i) clean) means the hook misrepresents the code
    #[cfg(a4lg_ffuzzy_verif)]
    if ok {
        let mut hk = Generator::new();
        hk.verif_skip_zero_prefix(n);
        let same_dbg = format!("{:?}", hk) == format!("{:?}", real);
        hk.update(suffix);
        let same_obs = observe(&hk) == observe(&real2);
        if !same_obs {
            l.inconclusive(format!("hook self-validation: verif_skip_zero_prefix({}) behaves differently from feeding {} zero bytes", n, n));
        } else if !same_dbg {
            l.count("hook_debug_state_differs_but_behaviour_equal", 1);
        }
    }
}

pub fn run(o: &Opts) -> i32 {
    let mut pre = Vec::new();
    if let Err(e) = common::selfcheck(o) {
        pre.push(format!("oracle O1 failed its calibration: {}", e));
    }
    if !cfg!(a4lg_ffuzzy_verif) {
        pre.push("built without --cfg a4lg_ffuzzy_verif: the zero-prefix hook is unavailable".into());
    }
    let words: Words = match common::words_or_inconclusive() {
        Ok(w) => w,
        Err(e) => {
            pre.push(e);
            vec![vec![[0u8; 7]]; 33]
        }
    };
    let wref = &words;
    let mut streams: Vec<Stream> = Vec::new();
    // fixed hostile cases first (one case): the limit itself, one byte more, the largest block size with
    // 31/32/64/65 top-level pieces, a declared size above 96 GiB
    streams.push(Stream::new("hostile-sizes", 1, move |_i, _rng: &mut Rng, l: &mut Local| {
        let top = wref[30][0];
        let tiny = crate::work::bytes::tiny();
        let plans: &[(usize, usize)] = if tiny { &[(1, 0), (33, 1)] } else { &[(1, 0), (31, 1), (32, 0), (33, 1), (64, 0), (65, 1), (70, 0)] };
        for &(n_words, tail) in plans {
            let mut s = Vec::new();
            for _ in 0..n_words {
                s.extend_from_slice(&top);
                s.extend_from_slice(&[0u8; 7]);
            }
            for k in 0..tail {
                s.push(7 + k as u8);
            }
            let totals: &[u64] = if tiny { &[MAX_INPUT, MAX_INPUT + 1] } else { &[MAX_INPUT, MAX_INPUT + 1, MAX_INPUT - 1, (96u64 << 30) + 1] };
            for &total in totals {
                let prefix = total - s.len() as u64;
                check_case(l, prefix, &s, None, "hostile");
                check_case(l, prefix, &s, Some(total.min(MAX_INPUT)), "hostile-declared");
            }
        }
    }));
    // hook self-validation, small N completely
    streams.push(Stream::new("hook-validation-small", 3001, move |n, rng: &mut Rng, l: &mut Local| {
        let lv = rng.usize_below(31);
        let mut s = wref[lv][0].to_vec();
        s.extend_from_slice(&[1, 2, 3]);
        validate_hook(l, n, &s);
    }));
    let big_max: u64 = if o.is_thorough() { 1 << 30 } else { 1 << 26 };
    streams.push(
        Stream::new("hook-validation-large", o.n(24, 64), move |_i, rng: &mut Rng, l: &mut Local| {
            let bits = rng.range(12, 63 - big_max.leading_zeros() as u64);
            let n = ((1u64 << bits) + rng.below(1u64 << bits)).min(big_max);
            let s = suffix_for(rng, wref, rng.clone().usize_below(12));
            validate_hook(l, n, &s);
        })
        .grain(1),
    );
    // every border 192*2^n + {-2..2}, n = 0..30, every suffix plan
    let per_border = o.n(40, 3000);
    streams.push(Stream::new("block-size-borders", 31 * 5 * per_border, move |i, rng: &mut Rng, l: &mut Local| {
        let n = (i % 31) as usize;
        let delta = ((i / 31) % 5) as i64 - 2;
        let target_idx = match rng.below(4) {
            0 => n.saturating_sub(1),
            1 => (n + 1).min(30),
            _ => n,
        };
        let s = suffix_for(rng, wref, target_idx);
        let total = ((192u64 << n) as i64 + delta) as u64;
        if total < s.len() as u64 {
            return;
        }
        let prefix = total - s.len() as u64;
        let hint = match rng.below(6) {
            0 => Some(total),
            1 => Some(total + 1),
            _ => None,
        };
        check_case(l, prefix, &s, hint, "border");
    }));
    // around 96 GiB and 192 GiB (largest block size, last-piece hash, the hard limit)
    streams.push(Stream::new("upper-limits", o.n(6000, 400_000), move |i, rng: &mut Rng, l: &mut Local| {
        let lvl = if rng.chance(2, 3) { 30 } else { 29 };
        let s = suffix_for(rng, wref, lvl);
        let base: u64 = match i % 4 {
            0 => 96u64 << 30,
            1 => 192u64 << 30,
            2 => (96u64 << 30) + rng.below(96u64 << 30),
            _ => 192u64 << 30,
        };
        let delta = rng.range(0, 8) as i64 - 4;
        let total = (base as i64 + delta) as u64;
        let prefix = total - s.len() as u64;
        let hint = match rng.below(8) {
            0 => Some(total),
            1 => Some(MAX_INPUT),
            _ => None,
        };
        check_case(l, prefix, &s, hint, "limit");
    }));
    // residues modulo 7 and 64, arbitrary sizes
    streams.push(Stream::new("residues-and-random-sizes", o.n(6000, 400_000), move |i, rng: &mut Rng, l: &mut Local| {
        let bits = rng.range(0, 37);
        let base = rng.below((1u64 << bits).min(MAX_INPUT)) / 448 * 448;
        let prefix = base + (i % 448); // every residue mod 7 and mod 64
        let s = suffix_for(rng, wref, rng.clone().usize_below(31));
        check_case(l, prefix, &s, None, "residue");
    }));
    // the small-input warning around 4096/4097
    streams.push(Stream::new("small-input-warning", 4000, move |i, rng: &mut Rng, l: &mut Local| {
        let total = 4090 + (i % 14);
        let s: Vec<u8> = (0..(i % 9)).map(|_| rng.byte()).collect();
        let hint = match (i / 14) % 4 {
            0 => None,
            1 => Some(total),
            2 => Some(4096),
            _ => Some(4097),
        };
        check_case(l, total - s.len() as u64, &s, hint, "warning");
    }));
    let mut rr = run_streams(o, streams);
    rr.local.inconclusive.extend(pre);
    finish(
        o,
        rr,
        Report {
            rule: "cases new -> hook skip(N zero bytes) -> update(crafted suffix) -> four finalizers + input_size + small-input warning, against oracle O1 with its closed-form zero jump: N on every border 192*2^n + {-2..2} for n = 0..30, around 96 GiB and 192 GiB (exactly the limit accepted, one more byte InputSizeTooLarge), all residues mod 7 and 64, sizes 4090..4103 for the warning; suffixes of trigger words creating 0/1/31..34/62..66/70 pieces at levels n-1, n, n+1 and at 30, with and without a (correct or wrong) declared size. The hook and the oracle's zero jump are validated on every run against really feeding N zero bytes for all N <= 3000 and sampled N up to 2^26 (quick) / 2^30 (thorough): real feeding vs oracle is a verdict on the library, hook vs real feeding only decides whether the hook may be trusted (else inconclusive). Non-trivial = output block-size index >= 18 (unreachable with real data in this tier); distinct by (prefix, suffix).".into(),
            assumptions: vec!["zero bytes never end a piece (rolling hash 0 => 0+1 is not a multiple of 3), so N zero bytes change only the size, the rolling window index and the first context's FNV state".into(), "oracle O1 as in C01 (re-calibrated this run)".into()],
            exhaustive: false,
            min_nontrivial: 1000 * o.scale_pct / 100,
            extra: vec![],
        },
    )
}

//! C05 - text round trip and formatter contract (oracle O8 rendering, O3/O4 for texts).

use crate::ctx::{finish, guard, run_streams, Local, Opts, Report, Stream};
use crate::for_plain_types;
use crate::json::{esc, J};
use crate::oracle::model::{self, Parsed, HV};
use crate::rng::{fnv64, Rng};
use crate::types::HashLike;
use crate::work::hashes;
use ssdeep::FuzzyHashOperationError;

const SENT: u8 = 0xA5;

macro_rules! check_object {
    ($l:expr, $T:ty, $m:expr) => {{
        let m: &HV = $m;
        let name = <$T as HashLike>::NAME;
        let want = m.text();
        let sig = |w: &str| format!("C05|{}|{}|{}", name, w, want);
        let r = guard(|| {
            let h = <$T as HashLike>::build(m);
            let mut buf = [SENT; 320];
            let n = h.store_into_bytes(&mut buf).expect("large buffer refused");
            let stored = String::from_utf8_lossy(&buf[..n]).into_owned();
            let tail_ok = buf[n..].iter().all(|&b| b == SENT);
            let disp = format!("{}", h);
            // the formatting trait under format specifications (width, fill, alignment, precision, sign, #, 0):
            // the text is the contract, so every one of them must give the same text
            let disp_flags: Vec<(&'static str, String)> = vec![
                ("{:.12}", format!("{:.12}", h)),
                ("{:.0}", format!("{:.0}", h)),
                ("{:80}", format!("{:80}", h)),
                ("{:*>160}", format!("{:*>160}", h)),
                ("{:^7}", format!("{:^7}", h)),
                ("{:<200.3}", format!("{:<200.3}", h)),
                ("{:#}", format!("{:#}", h)),
                ("{:+}", format!("{:+}", h)),
                ("{:0300}", format!("{:0300}", h)),
            ];
            #[cfg(feature = "ffstd")]
            let (ts, sf) = (Some(h.to_string()), Some(String::from(h)));
            #[cfg(not(feature = "ffstd"))]
            let (ts, sf): (Option<String>, Option<String>) = (None, None);
            let len_in_str = h.len_in_str();
            let back = <$T>::from_bytes(stored.as_bytes());
            let back_ok = match &back {
                Ok(b) => *b == h && b.full_eq(&h) && b.is_valid(),
                Err(_) => false,
            };
            (stored, tail_ok, disp, disp_flags, ts, sf, len_in_str, back_ok, h)
        });
        $l.eval(1);
        match r {
            Err(p) => $l.violation("totality", sig("panic"), format!("formatting a valid {} ({}) panicked: {}", name, want, p)),
            Ok((stored, tail_ok, disp, disp_flags, ts, sf, len_in_str, back_ok, h)) => {
                $l.check(stored == want, "text", || (sig("store"), format!("{}: store_into_bytes gives {:?} but the object holds {:?}", name, stored, want)));
                $l.check(tail_ok, "no-overwrite", || (sig("tail"), format!("{}: store_into_bytes wrote past the reported length for {}", name, want)));
                $l.check(disp == want, "text", || (sig("display"), format!("{}: Display gives {:?} expected {:?}", name, disp, want)));
                for (spec, got) in &disp_flags {
                    $l.check(*got == want, "text", || (sig("display-flags"), format!("{}: Display under {} gives {:?} expected {:?}", name, spec, got, want)));
                }
                if let Some(ts) = ts {
                    $l.check(ts == want, "text", || (sig("to_string"), format!("{}: to_string gives {:?} expected {:?}", name, ts, want)));
                }
                if let Some(sf) = sf {
                    $l.check(sf == want, "text", || (sig("string_from"), format!("{}: String::from gives {:?} expected {:?}", name, sf, want)));
                }
                $l.check(len_in_str == want.len(), "advertised-length", || (sig("len"), format!("{}: len_in_str()={} but the text {:?} has {} bytes", name, len_in_str, want, want.len())));
                $l.check(want.len() <= <$T>::MAX_LEN_IN_STR && <$T>::MAX_LEN_IN_STR <= ssdeep::MAX_LEN_IN_STR, "advertised-maximum", || {
                    (sig("max"), format!("{}: text of {} bytes exceeds MAX_LEN_IN_STR={} (crate-wide {})", name, want.len(), <$T>::MAX_LEN_IN_STR, ssdeep::MAX_LEN_IN_STR))
                });
                $l.check(back_ok, "round-trip", || (sig("roundtrip"), format!("{}: {:?} does not parse back to an equal (== and full_eq) valid object", name, stored)));
                // every buffer length 0..need+8
                let need = want.len();
                let rb = guard(|| {
                    let mut bad: Option<String> = None;
                    for blen in 0..=(need + 8) {
                        let mut buf = vec![SENT; blen];
                        let r = h.store_into_bytes(&mut buf);
                        if blen < need {
                            if r != Err(FuzzyHashOperationError::StringizationOverflow) {
                                bad = Some(format!("buffer of {} bytes (need {}) was not refused: {:?}", blen, need, r));
                                break;
                            }
                            if buf.iter().any(|&b| b != SENT) {
                                bad = Some(format!("refused buffer of {} bytes (need {}) was written to", blen, need));
                                break;
                            }
                        } else {
                            if r != Ok(need) || &buf[..need] != want.as_bytes() || buf[need..].iter().any(|&b| b != SENT) {
                                bad = Some(format!("buffer of {} bytes (need {}): result {:?}, content {:?}", blen, need, r, esc(&buf)));
                                break;
                            }
                        }
                    }
                    bad
                });
                $l.eval(need as u64 + 9);
                match rb {
                    Ok(None) => {}
                    Ok(Some(b)) => $l.violation("caller-buffer-contract", sig("buffers"), format!("{}: store_into_bytes of {}: {}", name, want, b)),
                    Err(p) => $l.violation("totality", sig("buffers-panic"), format!("{}: store_into_bytes panicked on some buffer length for {}: {}", name, want, p)),
                }
                if want.len() == <$T>::MAX_LEN_IN_STR {
                    $l.count("reached_advertised_maximum", 1);
                }
            }
        }
    }};
}

/// run-collapse of the two block hash fields of a text `bs:bh1:bh2` (character-wise, O4 on text)
fn collapse_text(prefix: &[u8]) -> Option<Vec<u8>> {
    let c1 = prefix.iter().position(|&c| c == b':')?;
    let c2 = c1 + 1 + prefix[c1 + 1..].iter().position(|&c| c == b':')?;
    let mut out = prefix[..=c1].to_vec();
    out.extend(model::normalize(&prefix[c1 + 1..c2]));
    out.push(b':');
    out.extend(model::normalize(&prefix[c2 + 1..]));
    Some(out)
}

macro_rules! check_text_roundtrip {
    ($l:expr, $T:ty, $t:expr) => {{
        let t: &[u8] = $t;
        let name = <$T as HashLike>::NAME;
        // whatever the parser accepts (through any entry point), formatting must give back the text
        // up to its optional comma (raw types) / its run-collapse (normalizing types)
        let prefix: &[u8] = match t.iter().position(|&c| c == b',') {
            Some(p) => &t[..p],
            None => t,
        };
        let want: Option<Vec<u8>> = if <$T as HashLike>::NORM { collapse_text(prefix) } else { Some(prefix.to_vec()) };
        let mut apis: Vec<(&str, Result<Result<String, ()>, String>)> = Vec::new();
        apis.push(("from_bytes", guard(|| <$T>::from_bytes(t).map(|h| crate::util::text_of(&h)).map_err(|_| ()))));
        if let Ok(s) = std::str::from_utf8(t) {
            apis.push(("from_str", guard(|| s.parse::<$T>().map(|h| crate::util::text_of(&h)).map_err(|_| ()))));
        }
        for (api, r) in apis {
            $l.eval(1);
            match r {
                Ok(Ok(got)) => {
                    if let Some(w) = &want {
                        $l.check(got.as_bytes() == &w[..], "text-survives", || {
                            (format!("C05|{}|reformat|{}|{}", name, api, crate::json::hex(t)), format!("{}::{} accepts {:?} and formats it again as {:?}, expected {:?}", name, api, esc(t), got, esc(w)))
                        });
                    }
                    $l.count("texts_round_tripped", 1);
                }
                Ok(Err(_)) => {} // acceptance itself is C04's business
                Err(p) => $l.violation("totality", format!("C05|{}|reformat-panic|{}", name, crate::json::hex(t)), format!("{}: parse+format of {:?} panicked: {}", name, esc(t), p)),
            }
        }
    }};
}

/// the formatter contract for one raw value in all four plain types
pub fn check_value(l: &mut Local, long: &HV) {
    let mut short = long.clone();
    short.bh2.truncate(32);
    check_object!(l, ssdeep::LongRawFuzzyHash, long);
    check_object!(l, ssdeep::RawFuzzyHash, &short);
    let (ln, sn) = (long.normalized(), short.normalized());
    check_object!(l, ssdeep::LongFuzzyHash, &ln);
    check_object!(l, ssdeep::FuzzyHash, &sn);
}

pub fn run(o: &Opts) -> i32 {
    let mut streams: Vec<Stream> = Vec::new();
    streams.push(Stream::new("objects-w3", o.n(60_000, 5_000_000), |_i, rng: &mut Rng, l: &mut Local| {
        let long = hashes::gen_hv(rng, 64, false);
        check_value(l, &long);
        if !long.bh1.is_empty() && !long.bh2.is_empty() {
            l.nt(long.fp());
        }
        l.sample(|| J::obj().set("object", J::s(long.text())));
    }));
    // all 31 block sizes x extreme lengths (incl. the advertised maximum)
    streams.push(Stream::new("all-block-sizes-extremes", 31 * 6, |i, _rng: &mut Rng, l: &mut Local| {
        let log = (i % 31) as u8;
        let (n1, n2) = [(0usize, 0usize), (64, 64), (64, 0), (0, 64), (1, 1), (63, 31)][(i / 31) as usize];
        let long = HV { log, bh1: (0..n1).map(|k| ((k * 3 + 1) % 64) as u8).collect(), bh2: (0..n2).map(|k| ((k * 5 + 2) % 64) as u8).collect() };
        let mut short = long.clone();
        short.bh2.truncate(32);
        check_object!(l, ssdeep::LongRawFuzzyHash, &long);
        check_object!(l, ssdeep::RawFuzzyHash, &short);
        check_object!(l, ssdeep::LongFuzzyHash, &long);
        check_object!(l, ssdeep::FuzzyHash, &short);
        l.nt(long.fp());
    }));
    streams.push(Stream::new("texts-w5", o.n(150_000, 10_000_000), |_i, rng: &mut Rng, l: &mut Local| {
        let t = hashes::gen_text(rng);
        for_plain_types!(T => { check_text_roundtrip!(l, T, &t); });
        if matches!(model::parse(&t, 64, false, false), Parsed::Accept { .. }) {
            l.nt(fnv64(&t));
        }
    }));
    streams.push(Stream::new("texts-with-suffixes", o.n(20_000, 1_000_000), |_i, rng: &mut Rng, l: &mut Local| {
        // valid texts followed by characters a lenient parser might swallow
        let hv = hashes::gen_hv(rng, 32, false);
        let mut t = hv.text().into_bytes();
        let suf: &[u8] = *rng.pick(&[&b"\n"[..], b"\r\n", b" ", b"\t", b"\0", b"  ", b"\r", b",", b", ", b",x\n", b"\x0b", b"\x0c"]);
        t.extend_from_slice(suf);
        if rng.chance(1, 4) {
            t.insert(0, *rng.pick(&[b' ', b'\n', b'+', b'0']));
        }
        for_plain_types!(T => { check_text_roundtrip!(l, T, &t); });
    }));
    let rr = run_streams(o, streams);
    finish(
        o,
        rr,
        Report {
            rule: "objects: valid hashes of the four plain types from W3 block hashes x block sizes (all 31 block sizes at the extreme lengths incl. the advertised maximum): store_into_bytes, Display, to_string, String::from must all equal the independent rendering O8 (decimal block size by integer formatting, base64 by arithmetic), length = len_in_str() <= MAX_LEN_IN_STR, parse back to an == and full_eq object; store_into_bytes with a sentinel-filled buffer of EVERY length 0..need+8 (refused and untouched iff too short, nothing written past the length otherwise). texts: W5 texts and valid texts with white-space/control suffixes through from_bytes and FromStr: whenever an entry point accepts, formatting must reproduce the text up to its optional comma (raw types) or its character-wise run-collapse (normalizing types). Non-trivial = object with both block hashes non-empty / accepted text; distinct by text.".into(),
            assumptions: vec![],
            exhaustive: false,
            min_nontrivial: 2000 * o.scale_pct / 100,
            extra: vec![],
        },
    )
}

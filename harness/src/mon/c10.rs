//! C10 - score laws and the candidate / window pre-filter that clustering relies on.

use crate::ctx::{finish, guard, run_streams, Local, Opts, Report, Stream};
use crate::json::J;
use crate::oracle::model::HV;
use crate::rng::Rng;
use crate::types::HashLike;
use crate::work::hashes;
use ssdeep::{FuzzyHash, FuzzyHashCompareTarget, LongFuzzyHash};
use std::collections::HashSet;

/// reference encoding of a 7-symbol window
fn encode(w: &[u8]) -> u64 {
    let mut v = 0u64;
    for (i, &s) in w.iter().enumerate() {
        v += (s as u64) * 64u64.pow(6 - i as u32);
    }
    v
}
fn decode(mut v: u64) -> [u8; 7] {
    let mut w = [0u8; 7];
    for i in (0..7).rev() {
        w[i] = (v % 64) as u8;
        v /= 64;
    }
    w
}

macro_rules! windows_of {
    ($l:expr, $h:expr, $m:expr, $tname:expr) => {{
        // returns the set of index windows after checking each iterator against the definition
        let h = &$h;
        let m: &HV = $m;
        let mut set: HashSet<u64> = HashSet::new();
        for (which, bh, eff) in [(1u8, &m.bh1, m.log as u64), (2u8, &m.bh2, m.log as u64 + 1)] {
            let sig = |w: &str| format!("C10|{}|{}|bh{}|{}", $tname, w, which, m.text());
            let slices: Vec<Vec<u8>> = if which == 1 { h.block_hash_1_windows().map(|s| s.to_vec()).collect() } else { h.block_hash_2_windows().map(|s| s.to_vec()).collect() };
            let (nit_len, nit_hint, nums): (usize, (usize, Option<usize>), Vec<u64>) = if which == 1 {
                let it = h.block_hash_1_numeric_windows();
                (it.len(), it.size_hint(), it.collect())
            } else {
                let it = h.block_hash_2_numeric_windows();
                (it.len(), it.size_hint(), it.collect())
            };
            let (iit_len, iit_hint, idxs): (usize, (usize, Option<usize>), Vec<u64>) = if which == 1 {
                let it = h.block_hash_1_index_windows();
                (it.len(), it.size_hint(), it.collect())
            } else {
                let it = h.block_hash_2_index_windows();
                (it.len(), it.size_hint(), it.collect())
            };
            $l.eval(3);
            let expect_n = if bh.len() >= 7 { bh.len() - 6 } else { 0 };
            let expect_slices: Vec<Vec<u8>> = (0..expect_n).map(|i| bh[i..i + 7].to_vec()).collect();
            $l.check(slices == expect_slices, "windows", || (sig("windows"), format!("*_windows() of block hash {} of {} are not its 7-symbol slices", which, m.text())));
            $l.check(nit_len == expect_n && nit_hint == (expect_n, Some(expect_n)) && nums.len() == expect_n, "numeric-window-len", || {
                (sig("numeric-len"), format!("numeric windows of block hash {} of {}: len()={} size_hint={:?} yielded {} expected {}", which, m.text(), nit_len, nit_hint, nums.len(), expect_n))
            });
            $l.check(iit_len == expect_n && iit_hint == (expect_n, Some(expect_n)) && idxs.len() == expect_n, "index-window-len", || {
                (sig("index-len"), format!("index windows of block hash {} of {}: len()={} size_hint={:?} yielded {} expected {}", which, m.text(), iit_len, iit_hint, idxs.len(), expect_n))
            });
            for i in 0..expect_n.min(nums.len()).min(idxs.len()) {
                let want = encode(&bh[i..i + 7]);
                $l.check(nums[i] == want, "numeric-window-value", || {
                    (sig("numeric-value"), format!("numeric window {} of block hash {} of {} is {:#x}, the base-64 encoding of the slice is {:#x}", i, which, m.text(), nums[i], want))
                });
                $l.check(idxs[i] == ((eff << 42) | want), "index-window-value", || {
                    (sig("index-value"), format!("index window {} of block hash {} of {} is {:#x}, expected (eff_log {} << 42) | {:#x}", i, which, m.text(), idxs[i], eff, want))
                });
                // injectivity: decoding the number gives back the slice
                $l.check(decode(nums[i] & ((1u64 << 42) - 1)) == bh[i..i + 7] && nums[i] >> 42 == 0, "window-injective", || {
                    (sig("injective"), format!("numeric window {:#x} does not decode to the slice it came from ({})", nums[i], m.text()))
                });
                set.insert(idxs[i]);
            }
        }
        set
    }};
}

macro_rules! check_pair_ty {
    ($l:expr, $T:ty, $tname:expr, $a:expr, $b:expr) => {{
        let (ma, mb): (&HV, &HV) = ($a, $b);
        let sig = |w: &str| format!("C10|{}|{}|{}|{}", $tname, w, ma.text(), mb.text());
        let r = guard(|| {
            let ha = <$T as HashLike>::build(ma);
            let hb = <$T as HashLike>::build(mb);
            let ta = FuzzyHashCompareTarget::from(&ha);
            let tb = FuzzyHashCompareTarget::from(&hb);
            let s_ab = ta.compare(&hb);
            let s_ba = tb.compare(&ha);
            let s_aa = ta.compare(&ha);
            let h_ab = ha.compare(&hb);
            let c_ab = ta.is_comparison_candidate(&hb);
            let c_ba = tb.is_comparison_candidate(&ha);
            let wa = windows_of!($l, ha, ma, $tname);
            let wb = windows_of!($l, hb, mb, $tname);
            let inter = wa.intersection(&wb).next().is_some();
            (s_ab, s_ba, s_aa, h_ab, c_ab, c_ba, inter)
        });
        $l.eval(6);
        match r {
            Err(p) => $l.violation("totality", sig("panic"), format!("panic while comparing {} and {}: {}", ma.text(), mb.text(), p)),
            Ok((s_ab, s_ba, s_aa, h_ab, c_ab, c_ba, inter)) => {
                let (ta, tb) = (ma.text(), mb.text());
                $l.check(s_ab <= 100 && s_ba <= 100, "score-range", || (sig("range"), format!("score {} / {} outside 0..=100 for {} vs {}", s_ab, s_ba, ta, tb)));
                $l.check(s_ab == s_ba && h_ab == s_ab, "score-symmetric", || (sig("symmetric"), format!("compare(a,b)={} compare(b,a)={} hash-to-hash={} for a={} b={}", s_ab, s_ba, h_ab, ta, tb)));
                $l.check(s_aa == 100, "score-self", || (sig("self"), format!("compare(a,a)={} for a={}", s_aa, ta)));
                let far = (ma.log as i32 - mb.log as i32).abs() > 1;
                if far {
                    $l.check(s_ab == 0 && !c_ab, "score-far", || (sig("far"), format!("block sizes differ by more than a factor of two but score={} candidate={} for {} vs {}", s_ab, c_ab, ta, tb)));
                }
                $l.check(c_ab == c_ba, "candidate-symmetric", || (sig("cand-symmetric"), format!("is_comparison_candidate is {} one way and {} the other for {} vs {}", c_ab, c_ba, ta, tb)));
                $l.check((s_ab > 0) == (ma == mb || c_ab), "nonzero-iff-candidate", || {
                    (sig("nonzero-iff"), format!("score={} but equal={} candidate={} for {} vs {}", s_ab, ma == mb, c_ab, ta, tb))
                });
                $l.check(c_ab == inter, "candidate-iff-windows-intersect", || {
                    (sig("cand-windows"), format!("is_comparison_candidate={} but the index-window sets {} for {} vs {}", c_ab, if inter { "intersect" } else { "are disjoint" }, ta, tb))
                });
                if c_ab && ma != mb {
                    $l.nt(ma.fp() ^ mb.fp().rotate_left(13));
                }
                $l.hist("candidate", format!("{}:{}", $tname, c_ab));
            }
        }
    }};
}

fn fit_short(m: &HV) -> HV {
    let mut m = m.clone();
    m.bh2.truncate(32);
    m.normalized()
}

pub fn run(o: &Opts) -> i32 {
    let mut streams: Vec<Stream> = Vec::new();
    streams.push(Stream::new("w4-normalized-pairs", o.n(150_000, 15_000_000), |_i, rng: &mut Rng, l: &mut Local| {
        let a = hashes::gen_hv(rng, 64, true);
        let b = hashes::derive(rng, &a, 64).normalized();
        check_pair_ty!(l, LongFuzzyHash, "LongFuzzyHash", &a, &b);
        let (sa, sb) = (fit_short(&a), fit_short(&b));
        check_pair_ty!(l, FuzzyHash, "FuzzyHash", &sa, &sb);
        l.sample(|| J::obj().set("a", J::s(a.text())).set("b", J::s(b.text())));
    }));
    streams.push(Stream::new("chunk-chains", o.n(40_000, 3_000_000), |_i, rng: &mut Rng, l: &mut Local| {
        // long common subsequence built from chunks of exactly 5/6/7/8 symbols: with 6-symbol chunks there is
        // NO shared 7-symbol window, so candidate must be false and the score 0
        let (x, y) = hashes::gen_chain_pair(rng, 64);
        let log = hashes::gen_log(rng);
        let a = HV { log, bh1: x.clone(), bh2: y.clone() }.normalized();
        let b = match rng.below(3) {
            0 => HV { log, bh1: y.clone(), bh2: x.clone() },
            1 => HV { log: (log + 1).min(30), bh1: x.clone(), bh2: vec![] },
            _ => HV { log, bh1: y.clone(), bh2: vec![] },
        }
        .normalized();
        check_pair_ty!(l, LongFuzzyHash, "LongFuzzyHash", &a, &b);
        let (sa, sb) = (fit_short(&a), fit_short(&b));
        check_pair_ty!(l, FuzzyHash, "FuzzyHash", &sa, &sb);
        l.count("chunk_chain_pairs", 1);
    }));
    streams.push(Stream::new("all-31x31-block-sizes", 31 * 31 * o.n(3, 30), |i, rng: &mut Rng, l: &mut Local| {
        let (l1, l2) = ((i % 31) as u8, ((i / 31) % 31) as u8);
        let mut a = hashes::gen_hv(rng, 32, true);
        a.log = l1;
        // make the block hashes long enough to have windows
        while a.bh1.len() < 12 {
            a.bh1.push(((a.bh1.len() * 5 + 1) % 64) as u8);
        }
        while a.bh2.len() < 12 {
            a.bh2.push(((a.bh2.len() * 7 + 3) % 64) as u8);
        }
        let a = a.normalized();
        let mut b = a.clone();
        b.log = l2;
        match rng.below(3) {
            0 => {}
            1 => std::mem::swap(&mut b.bh1, &mut b.bh2),
            _ => b.bh1 = hashes::gen_bh_norm(rng, 64),
        }
        b.bh2.truncate(32);
        let b = b.normalized();
        check_pair_ty!(l, FuzzyHash, "FuzzyHash", &a, &b);
        let (la, lb) = (a.clone(), b.clone());
        check_pair_ty!(l, LongFuzzyHash, "LongFuzzyHash", &la, &lb);
    }));
    let rr = run_streams(o, streams);
    finish(
        o,
        rr,
        Report {
            rule: "pairs of normalized hashes (W4: edits, crossing, run changes, chunk chains of exactly 5/6/7/8-symbol chunks separated by single symbols - long common subsequence with or without a shared 7-symbol window; all 31x31 block-size combinations incl. index 30 whose block hash 2 has effective index 31), short and long forms. Per pair: score in 0..=100, symmetric, 100 against itself, 0 when far; non-zero iff equal or candidate; candidate iff the index-window sets intersect; every window iterator (slices, numeric, index) against the definition incl. len()/size_hint() and injectivity by decoding. Non-trivial = candidate pair with a != b; distinct by pair.".into(),
            assumptions: vec![],
            exhaustive: false,
            min_nontrivial: 2000 * o.scale_pct / 100,
            extra: vec![],
        },
    )
}

//! One monitor per property.
use crate::ctx::Opts;

pub mod common;
pub mod c01;
pub mod c02;
pub mod c03;
pub mod c04;
pub mod c05;
pub mod c06;
pub mod c08;
pub mod c10;
pub mod c11;
pub mod c12;
pub mod c13;
pub mod c15;
pub mod c16;
pub mod c17;
pub mod c18;
pub mod c19;
pub mod c20;
pub mod genhist;
pub mod objops;
pub mod transcript;
pub mod ubscan;

pub fn dispatch(cmd: &str, o: &Opts) -> i32 {
    match cmd {
        "c01" => c01::run(o),
        "c02" => c02::run(o),
        "c03" => c03::run(o),
        "c04" => c04::run(o),
        "c05" => c05::run(o),
        "c06" => c06::run_c06(o),
        "c07" => c06::run_c07(o),
        "c08" => c08::run_c08(o),
        "c09" => c08::run_c09(o),
        "c10" => c10::run(o),
        "c11" => c11::run(o),
        "c12" => c12::run(o),
        "c13" => c13::run(o),
        "c15" => c15::run(o),
        "c16" => c16::run(o),
        "c17" => c17::run(o),
        "c18" => c18::run(o),
        "c18-child" => c18::child(o),
        "c19" => c19::run(o),
        "c20" => c20::run(o),
        "transcript" => transcript::run(o),
        "ubscan" => ubscan::run(o),
        "selfcheck" => match common::selfcheck(o) {
            Ok(n) => {
                println!("selfcheck ok: {} reference vectors reproduced by oracle O1", n);
                0
            }
            Err(e) => {
                println!("INCONCLUSIVE selfcheck: {}", e);
                2
            }
        },
        _ => {
            eprintln!("unknown command {}", cmd);
            3
        }
    }
}

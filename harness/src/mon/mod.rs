//! One monitor per property.
use crate::ctx::Opts;

pub mod common;
pub mod c01;
pub mod c04;
pub mod c11;
pub mod objops;

pub fn dispatch(cmd: &str, o: &Opts) -> i32 {
    match cmd {
        "c01" => c01::run(o),
        "c04" => c04::run(o),
        "c11" => c11::run(o),
        "selfcheck" => match common::selfcheck(o) {
            Ok(n) => {
                println!("selfcheck ok: {} reference vectors reproduced by oracle O1", n);
                0
            }
            Err(e) => {
                println!("INCONCLUSIVE selfcheck: {}", e);
                2
            }
        },
        _ => {
            eprintln!("unknown command {}", cmd);
            3
        }
    }
}

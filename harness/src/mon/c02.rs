//! C02 - similarity score equals libfuzzy's fuzzy_compare on every pair (oracle O5).

use crate::ctx::{finish, guard, run_streams, Local, Opts, Report, Stream};
use crate::json::J;
use crate::oracle::model::{self, HV};
use crate::rng::Rng;
use crate::types::HashLike;
use crate::work::hashes;
use ssdeep::{
    DualFuzzyHash, FuzzyHash, FuzzyHashCompareTarget, LongDualFuzzyHash, LongFuzzyHash,
};

fn rel(l1: u8, l2: u8) -> &'static str {
    if l1 == l2 {
        "eq"
    } else if l1 as i32 + 1 == l2 as i32 {
        "lt"
    } else if l1 as i32 == l2 as i32 + 1 {
        "gt"
    } else {
        "far"
    }
}

/// all entry points for one ordered pair of raw values (block hash 2 of both <= s2)
pub fn check_pair(l: &mut Local, a: &HV, b: &HV, s2: usize, rng: &mut Rng) {
    let (want, which) = model::compare_detail(a.log, &a.bh1, &a.bh2, b.log, &b.bh1, &b.bh2);
    let (na, nb) = (a.normalized(), b.normalized());
    let sig = |ep: &str| format!("C02|{}|{}|{}", ep, a.text(), b.text());
    let mut scores: Vec<(&'static str, Result<u32, String>)> = Vec::new();
    // string function (parses raw texts into the long normalized type)
    #[cfg(feature = "ffstd")]
    {
        let (ta, tb) = (a.text(), b.text());
        scores.push(("compare(&str,&str)", guard(|| ssdeep::compare(&ta, &tb).expect("well-formed text rejected"))));
    }
    let la = LongFuzzyHash::build(&na);
    let lb = LongFuzzyHash::build(&nb);
    scores.push(("LongFuzzyHash::compare", guard(|| la.compare(&lb))));
    let ldb = LongDualFuzzyHash::new_from_internals_near_raw(b.log, &b.bh1, &b.bh2);
    // reusable target: From and init_from on a dirty target
    let t_from = FuzzyHashCompareTarget::from(&la);
    let mut t_init = FuzzyHashCompareTarget::from(LongFuzzyHash::build(&hashes::gen_hv(rng, 64, true)));
    t_init.init_from(&la);
    scores.push(("Target(From<&Long>)::compare(Long)", guard(|| t_from.compare(&lb))));
    scores.push(("Target(init_from)::compare(Long)", guard(|| t_init.compare(&lb))));
    scores.push(("Target::compare(LongDual)", guard(|| t_from.compare(&ldb))));
    let short_ok = s2 == 32 && na.bh2.len() <= 32 && nb.bh2.len() <= 32 && a.bh2.len() <= 32 && b.bh2.len() <= 32;
    if short_ok {
        let sa = FuzzyHash::build(&na);
        let sb = FuzzyHash::build(&nb);
        let db = DualFuzzyHash::new_from_internals_near_raw(b.log, &b.bh1, &b.bh2);
        let da = DualFuzzyHash::new_from_internals_near_raw(a.log, &a.bh1, &a.bh2);
        scores.push(("FuzzyHash::compare", guard(|| sa.compare(&sb))));
        scores.push(("Target::compare(FuzzyHash)", guard(|| t_from.compare(&sb))));
        scores.push(("Target::compare(DualFuzzyHash)", guard(|| t_from.compare(&db))));
        let t_s = FuzzyHashCompareTarget::from(&sa);
        scores.push(("Target(From<&FuzzyHash>)::compare(Long)", guard(|| t_s.compare(&lb))));
        let t_d = FuzzyHashCompareTarget::from(&da);
        scores.push(("Target(From<&Dual>)::compare(FuzzyHash)", guard(|| t_d.compare(&sb))));
        if na != nb {
            scores.push(("FuzzyHash::compare_unequal", guard(|| sa.compare_unequal(&sb))));
        }
    }
    // mixed forms: a target built from the long form (block hash 2 up to 64 symbols) against a short
    // hash and vice versa - only the side that is stored in the short type has to fit it
    let mut equivs: Vec<(&'static str, Result<bool, String>)> = Vec::new();
    equivs.push(("Target(Long)::is_equiv(Long)", guard(|| t_from.is_equiv(&lb))));
    if nb.bh2.len() <= 32 {
        let sb = FuzzyHash::build(&nb);
        scores.push(("Target(From<&Long>)::compare(FuzzyHash) [mixed]", guard(|| t_from.compare(&sb))));
        scores.push(("Target(init_from Long)::compare(FuzzyHash) [mixed]", guard(|| t_init.compare(&sb))));
        equivs.push(("Target(Long)::is_equiv(FuzzyHash)", guard(|| t_from.is_equiv(&sb))));
        if a.log == b.log {
            scores.push(("Target(From<&Long>)::compare_near_eq(FuzzyHash) [mixed]", guard(|| t_from.compare_near_eq(&sb))));
        }
    }
    if na.bh2.len() <= 32 {
        let sa = FuzzyHash::build(&na);
        let t_s = FuzzyHashCompareTarget::from(&sa);
        scores.push(("Target(From<&FuzzyHash>)::compare(Long) [mixed]", guard(|| t_s.compare(&lb))));
        scores.push(("Target(From<&FuzzyHash>)::compare(LongDual) [mixed]", guard(|| t_s.compare(&ldb))));
        equivs.push(("Target(FuzzyHash)::is_equiv(Long)", guard(|| t_s.is_equiv(&lb))));
    }
    for (ep, res) in equivs {
        l.eval(1);
        match res {
            Ok(e) => {
                l.check(e == (na == nb), "is_equiv", || (sig(ep), format!("{} gave {} for {} vs {}", ep, e, a.text(), b.text())));
            }
            Err(p) => l.violation("totality", sig(ep), format!("{} panicked for {} vs {}: {}", ep, a.text(), b.text(), p)),
        }
    }
    // specialised entry points inside their documented preconditions
    let r = rel(a.log, b.log);
    let equiv = na == nb;
    if !equiv {
        scores.push(("Target::compare_unequal", guard(|| t_from.compare_unequal(&lb))));
        scores.push(("LongFuzzyHash::compare_unequal", guard(|| la.compare_unequal(&lb))));
    }
    match r {
        "eq" => {
            scores.push(("Target::compare_near_eq", guard(|| t_from.compare_near_eq(&lb))));
            if !equiv {
                scores.push(("Target::compare_unequal_near_eq", guard(|| t_from.compare_unequal_near_eq(&lb))));
            }
        }
        "lt" => scores.push(("Target::compare_unequal_near_lt", guard(|| t_from.compare_unequal_near_lt(&lb)))),
        "gt" => scores.push(("Target::compare_unequal_near_gt", guard(|| t_from.compare_unequal_near_gt(&lb)))),
        _ => {}
    }
    #[cfg(feature = "ffunchecked")]
    {
        // unchecked twins inside the contract
        if !equiv {
            scores.push(("Target::compare_unequal_unchecked", guard(|| unsafe { t_from.compare_unequal_unchecked(&lb) })));
            scores.push(("LongFuzzyHash::compare_unequal_unchecked", guard(|| unsafe { la.compare_unequal_unchecked(&lb) })));
        }
        match r {
            "eq" => {
                scores.push(("Target::compare_near_eq_unchecked", guard(|| unsafe { t_from.compare_near_eq_unchecked(&lb) })));
                if !equiv {
                    scores.push(("Target::compare_unequal_near_eq_unchecked", guard(|| unsafe { t_from.compare_unequal_near_eq_unchecked(&lb) })));
                }
            }
            "lt" => scores.push(("Target::compare_unequal_near_lt_unchecked", guard(|| unsafe { t_from.compare_unequal_near_lt_unchecked(&lb) }))),
            "gt" => scores.push(("Target::compare_unequal_near_gt_unchecked", guard(|| unsafe { t_from.compare_unequal_near_gt_unchecked(&lb) }))),
            _ => {}
        }
    }
    for (ep, res) in scores {
        l.eval(1);
        match res {
            Ok(s) => {
                l.check(s == want, "score", || {
                    (sig(ep), format!("{} gave {} but fuzzy_compare gives {} for {} vs {}", ep, s, want, a.text(), b.text()))
                });
            }
            Err(p) => l.violation("totality", sig(ep), format!("{} panicked for {} vs {}: {}", ep, a.text(), b.text(), p)),
        }
    }
    // evidence
    l.hist("relation", r);
    l.hist("score_bucket", if want == 0 { "000".to_string() } else if want == 100 { "100".to_string() } else { format!("{:03}-{:03}", want / 10 * 10, want / 10 * 10 + 9) });
    l.hist("deciding_pair", ["none/identical/far", "bh1-bh1", "bh2-bh2", "cross"][which as usize]);
    if want > 0 && which != 0 {
        l.nt(a.fp() ^ b.fp().rotate_left(17));
        // was the small-block-size cap active?
        let eff = match which {
            1 => a.log.min(b.log),
            2 => a.log + 1,
            _ => a.log.max(b.log),
        };
        if eff < 4 {
            l.count("scored_in_capping_range", 1);
        }
    }
    l.sample(|| J::obj().set("a", J::s(a.text())).set("b", J::s(b.text())).set("score", J::U(want as u64)));
}

pub fn run(o: &Opts) -> i32 {
    let mut streams: Vec<Stream> = Vec::new();
    streams.push(Stream::new("w4-short", o.n(150_000, 6_000_000), |_i, rng: &mut Rng, l: &mut Local| {
        let a = hashes::gen_hv(rng, 32, false);
        let b = hashes::derive(rng, &a, 32);
        check_pair(l, &a, &b, 32, rng);
        check_pair(l, &b, &a, 32, rng);
    }));
    // chunk chains around the 7-gram threshold: long common subsequences with / without a common 7-gram
    streams.push(Stream::new("w4-chunk-chains", o.n(40_000, 2_000_000), |_i, rng: &mut Rng, l: &mut Local| {
        let (x, y) = hashes::gen_chain_pair(rng, 32);
        let log = hashes::gen_log(rng);
        let mut a = HV { log, bh1: x.clone(), bh2: y.clone() };
        a.bh2.truncate(32);
        let (b, s2) = match rng.below(3) {
            0 => (HV { log, bh1: y.clone(), bh2: { let mut t = x.clone(); t.truncate(32); t } }, 32),
            1 => (HV { log: (log + 1).min(30), bh1: x.clone(), bh2: vec![] }, 32), // a.bh2 (=y) against b.bh1 (=x)
            _ => (HV { log, bh1: y.clone(), bh2: vec![] }, 32),
        };
        check_pair(l, &a, &b, s2, rng);
        check_pair(l, &b, &a, s2, rng);
    }));
    streams.push(Stream::new("w4-long", o.n(100_000, 4_000_000), |_i, rng: &mut Rng, l: &mut Local| {
        let a = hashes::gen_hv(rng, 64, false);
        let b = hashes::derive(rng, &a, 64);
        check_pair(l, &a, &b, 64, rng);
        check_pair(l, &b, &a, 64, rng);
    }));
    // all 31x31 block-size relations on related content
    streams.push(Stream::new("all-block-size-pairs", 31 * 31 * o.n(4, 40), |i, rng: &mut Rng, l: &mut Local| {
        let (l1, l2) = ((i % 31) as u8, ((i / 31) % 31) as u8);
        let mut a = hashes::gen_hv(rng, 32, false);
        a.log = l1;
        let mut b = a.clone();
        b.log = l2;
        match rng.below(3) {
            0 => {}
            1 => std::mem::swap(&mut b.bh1, &mut b.bh2),
            _ => {
                b.bh1 = a.bh2.clone();
                b.bh2 = a.bh1.clone();
                b.bh2.truncate(32);
            }
        }
        b.bh2.truncate(32);
        check_pair(l, &a, &b, 32, rng);
    }));
    let rr = run_streams(o, streams);
    finish(
        o,
        rr,
        Report {
            rule: "pairs from W4 (unrelated, k edits, rotation, run insertion, crossing a.bh2~b.bh1 with doubled block size, chunk chains of exactly 5/6/7/8-symbol chunks with single-symbol separators on either side, all 31x31 block-size relations) over W3 block hashes, both orders; every comparison entry point (string function, hash-to-hash, reusable target built by From and by init_from on a dirty target, short/long/dual operands, the specialised compare_* forms inside their preconditions) is compared with the fuzzy_compare port O5 (own normalization, naive 7-gram test, DP edit distance, u64 arithmetic). evaluations = monitored comparison calls. Non-trivial = score decided by the edit-distance formula (both strings >= 7 with a common 7-gram); distinct by pair.".into(),
            assumptions: vec!["oracle O5 is a faithful port of fuzzy_compare/score_strings of libfuzzy 2.14.1".into()],
            exhaustive: false,
            min_nontrivial: 2000 * o.scale_pct / 100,
            extra: vec![],
        },
    )
}

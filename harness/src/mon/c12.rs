//! C12 - fixed-size hint, reset and the generator's error contract.

use crate::ctx::{finish, guard, run_streams, Local, Opts, Report, Stream};
use crate::json::J;
use crate::mon::common;
use crate::mon::genhist::{self, compare_obs, feed, observe, GModel, FORM_NAMES, MAX_INPUT, N_FORMS};
use crate::rng::{fnv64, Rng};
use crate::work::bytes::{self, Words};
use ssdeep::{Generator, GeneratorError};

const HOOK: bool = cfg!(a4lg_ffuzzy_verif);

struct Hist {
    g: Generator,
    m: GModel,
    log: Vec<String>,
    eliminated_before_reset: bool,
    midstream_hint: bool,
    resets: u32,
}

impl Hist {
    fn sig(&self) -> String {
        format!("C12|{}", self.log.join(";"))
    }
    fn observe(&mut self, l: &mut Local) {
        let got = observe(&self.g);
        let want = self.m.expect();
        let s = self.sig();
        compare_obs(l, "hint-reset-contract", &s, &format!("history [{}]", self.log.join("; ")), &got, &want);
    }
    fn set_hint(&mut self, l: &mut Local, n: u64, usize_form: bool) {
        let want = self.m.set_hint(n);
        if self.m.total() > 0 && want.is_ok() {
            self.midstream_hint = true;
        }
        let got = if usize_form { self.g.set_fixed_input_size_in_usize(n as usize) } else { self.g.set_fixed_input_size(n) };
        self.log.push(format!("set_fixed_input_size{}({})", if usize_form { "_in_usize" } else { "" }, n));
        l.eval(1);
        let s = self.sig();
        if let Err(e) = got {
            // the error's own classification agrees with its variant
            let too_large = matches!(e, GeneratorError::FixedSizeTooLarge | GeneratorError::InputSizeTooLarge);
            l.check(e.is_size_too_large_error() == too_large, "error-classification", || {
                (format!("C12|is_size_too_large_error|{:?}", e), format!("{:?}.is_size_too_large_error() = {}", e, e.is_size_too_large_error()))
            });
        }
        l.check(got == want, "hint-result", || {
            (s.clone(), format!("set_fixed_input_size({}) returned {:?} but the contract demands {:?} after [{}]", n, got, want, self.log.join("; ")))
        });
    }
    fn reset(&mut self, l: &mut Local) {
        if self.m.st.n_reduce > 0 {
            self.eliminated_before_reset = true;
        }
        self.g.reset();
        self.m.reset();
        self.resets += 1;
        self.log.push("reset".into());
        l.eval(1);
        let s = self.sig();
        l.check(self.g.input_size() == 0, "reset-input-size", || (s.clone(), format!("input_size() is {} right after reset", self.g.input_size())));
    }
    fn feed(&mut self, rng: &mut Rng, data: &[u8]) {
        // 1..4 chunks, random forms
        let n = rng.urange(1, 4);
        let mut cuts: Vec<usize> = (0..n - 1).map(|_| rng.usize_below(data.len() + 1)).collect();
        cuts.push(0);
        cuts.push(data.len());
        cuts.sort_unstable();
        for w in cuts.windows(2) {
            let form = rng.below(N_FORMS);
            feed(&mut self.g, form, &data[w[0]..w[1]]);
        }
        self.m.update(data);
        self.log.push(format!("feed(len={},fnv={:016x})", data.len(), fnv64(data)));
        let _ = FORM_NAMES;
    }
    #[allow(unused_variables)]
    fn skip_zeros(&mut self, n: u64) {
        #[cfg(a4lg_ffuzzy_verif)]
        {
            self.g.verif_skip_zero_prefix(n);
            self.m.zeros(n);
            self.log.push(format!("hook:skip_zero_prefix({})", n));
        }
    }
}

/// content whose processing leaves as much state as possible for reset() to forget
fn dirtying_payload(rng: &mut Rng, words: &Words) -> Vec<u8> {
    match rng.below(6) {
        0 => bytes::gen_kind(rng, 0, rng.clone().urange(2000, 20000)), // several eliminations (roll mask != 0)
        1 => {
            // saturate the first context: > 64 pieces at level 0, little data
            bytes::gen_kind(rng, 0, rng.clone().urange(220, 380))
        }
        2 => {
            // forks up to index 30 and the last-piece hash: level-30 words
            let mut d = vec![0u8; rng.urange(0, 20)];
            for _ in 0..rng.urange(1, 3) {
                d.extend_from_slice(&words[30][rng.usize_below(words[30].len())]);
                d.extend_from_slice(&[0u8; 7]);
            }
            d
        }
        3 => bytes::gen_w2(rng, words, 4096).0,
        4 => {
            let mut d = bytes::gen_kind(rng, 0, 6000);
            d.extend_from_slice(&words[30][0]);
            d
        }
        _ => bytes::gen_w1(rng, 30000),
    }
}

fn phase(h: &mut Hist, l: &mut Local, rng: &mut Rng, words: &Words, first: bool) {
    // optional zero-prefix through the hook (only possible on a fresh generator)
    let mut planned_prefix = 0u64;
    let use_hook = HOOK && !first && rng.chance(1, 3);
    let payload: Vec<u8> = if use_hook {
        // large sizes: make the largest block size reachable so that a stale last-hash flag shows
        planned_prefix = match rng.below(4) {
            0 => (96u64 << 30) + rng.below(1 << 20),
            1 => (150u64 << 30) + rng.below(1 << 30),
            2 => rng.below(192u64 << 30),
            _ => (192u64 << 30) - rng.below(4000),
        };
        let mut d = Vec::new();
        let lv = *rng.pick(&[30usize, 30, 29]);
        for _ in 0..rng.urange(30, 70) {
            d.extend_from_slice(&words[lv][rng.usize_below(words[lv].len())]);
            if rng.chance(1, 2) {
                d.extend_from_slice(&[0u8; 7]);
            }
        }
        if rng.chance(1, 2) {
            d.push(rng.byte() | 1);
        }
        d
    } else if first {
        dirtying_payload(rng, words)
    } else {
        match rng.below(3) {
            0 => dirtying_payload(rng, words),
            1 => bytes::gen_w1(rng, 4096),
            _ => bytes::gen_w2(rng, words, 1024).0,
        }
    };
    let total = planned_prefix + payload.len() as u64;
    // the declared size
    let declared: Option<u64> = match rng.below(8) {
        0 | 1 => None,
        2 | 3 | 4 => Some(total),
        5 => Some(total.wrapping_add(rng.range(1, 3)).min(MAX_INPUT)),
        6 => Some(total.saturating_sub(rng.range(1, 3))),
        _ => Some(rng.below(total.max(1) * 2 + 10)),
    };
    let hint_at = rng.below(3); // 0 before, 1 between, 2 after the updates
    let cut = rng.usize_below(payload.len() + 1);
    let usize_form = rng.chance(1, 3);
    if rng.chance(1, 10) {
        h.set_hint(l, MAX_INPUT + 1 + rng.below(1 << 40), false); // refused, leaves the generator unchanged
        h.observe(l);
    }
    if let (Some(d), 0) = (declared, hint_at) {
        h.set_hint(l, d, usize_form);
    }
    if planned_prefix > 0 {
        h.skip_zeros(planned_prefix);
    }
    h.feed(rng, &payload[..cut]);
    if rng.chance(1, 3) {
        h.observe(l);
    }
    if let (Some(d), 1) = (declared, hint_at) {
        h.set_hint(l, d, usize_form);
    }
    if rng.chance(1, 6) {
        // a second declaration: the same value is accepted, a different one refused
        if let Some(d) = h.m.hint {
            let second = if rng.chance(1, 2) { d } else { d ^ (1 << rng.below(20)) };
            h.set_hint(l, second, rng.chance(1, 2));
            h.observe(l);
        }
    }
    h.feed(rng, &payload[cut..]);
    if let (Some(d), 2) = (declared, hint_at) {
        h.set_hint(l, d, usize_form);
    }
    h.observe(l);
    if rng.chance(1, 5) {
        // clone and refused call: the clone taken before behaves the same afterwards
        let before = if rng.chance(1, 2) {
            h.g.clone()
        } else {
            // clone_from onto a generator with a history of its own
            let mut dst = Generator::new();
            let n = *rng.pick(&[300usize, 3000, 20000]);
            let junk = bytes::gen_kind(rng, 0, n);
            let _ = dst.set_fixed_input_size(n as u64);
            dst.update(&junk);
            dst.clone_from(&h.g);
            h.log.push("clone_from onto a used generator".into());
            dst
        };
        h.set_hint(l, MAX_INPUT + 7, false);
        let a = observe(&h.g);
        let b = observe(&before);
        l.eval(1);
        let s = h.sig();
        l.check(a == b, "refused-call-leaves-unchanged", || (s.clone(), format!("after a refused declaration the generator differs from a clone taken before it: {:?} vs {:?}", a, b)));
    }
}

pub fn history(l: &mut Local, rng: &mut Rng, words: &Words) {
    let mut h = Hist { g: Generator::new(), m: GModel::new(), log: Vec::new(), eliminated_before_reset: false, midstream_hint: false, resets: 0 };
    let phases = rng.urange(1, 3);
    let r = guard(|| {
        for p in 0..phases {
            if p > 0 {
                h.reset(l);
                if rng.chance(1, 4) {
                    h.observe(l); // a reset generator finalizes like a new one: "3::"
                }
            }
            phase(&mut h, l, rng, words, p == 0);
        }
    });
    if let Err(p) = r {
        let s = h.sig();
        l.violation("totality", s, format!("generator panicked during [{}]: {}", h.log.join("; "), p));
    }
    if h.eliminated_before_reset || h.midstream_hint {
        l.nt(fnv64(h.log.join(";").as_bytes()));
    }
    if h.eliminated_before_reset {
        l.count("reset_after_elimination", 1);
    }
    if h.midstream_hint {
        l.count("midstream_hint", 1);
    }
    l.hist("resets", format!("{}", h.resets));
    l.sample(|| J::obj().set("history", J::A(h.log.iter().take(20).map(|s| J::s(s.clone())).collect())));
}

pub fn run(o: &Opts) -> i32 {
    let mut pre = Vec::new();
    if let Err(e) = common::selfcheck(o) {
        pre.push(format!("oracle O1 failed its calibration: {}", e));
    }
    let words: Words = match common::words_or_inconclusive() {
        Ok(w) => w,
        Err(e) => {
            pre.push(e);
            vec![vec![[0u8; 7]]; 33]
        }
    };
    let wref = &words;
    let mut streams: Vec<Stream> = Vec::new();
    // fixed hostile histories first (one case): late correct hint after top-level forks, refused hints,
    // reset after the last-piece hash was active, small hint then large undeclared input
    streams.push(Stream::new("hostile-histories", 1, move |_i, rng: &mut Rng, l: &mut Local| {
        // the error type's own classification, for every variant (finalization errors included)
        for (e, too_large) in [
            (GeneratorError::FixedSizeMismatch, false),
            (GeneratorError::FixedSizeTooLarge, true),
            (GeneratorError::InputSizeTooLarge, true),
            (GeneratorError::OutputOverflow, false),
        ] {
            l.eval(1);
            l.check(e.is_size_too_large_error() == too_large && !format!("{}", e).is_empty(), "error-classification", || {
                (format!("C12|is_size_too_large_error|{:?}", e), format!("{:?}.is_size_too_large_error() = {} (Display: {:?})", e, e.is_size_too_large_error(), format!("{}", e)))
            });
        }
        let top: Vec<u8> = wref[30][0].to_vec();
        let mut h = Hist { g: Generator::new(), m: GModel::new(), log: Vec::new(), eliminated_before_reset: false, midstream_hint: false, resets: 0 };
        let r = guard(|| {
            // (1) forks to the top without a declaration, then a late correct declaration, then more top-level words
            let pre = bytes::gen_kind(rng, 0, 300);
            h.feed(rng, &pre);
            h.feed(rng, &top);
            let total = (pre.len() + 3 * top.len() + 5) as u64;
            h.set_hint(l, total, false);
            h.feed(rng, &top);
            h.feed(rng, &[1, 2, 3, 4, 5]);
            h.feed(rng, &top);
            h.observe(l);
            // (2) refused declarations leave everything as it was
            h.set_hint(l, 7, false);
            h.set_hint(l, genhist::MAX_INPUT + 1, true);
            h.observe(l);
            // (3) reset after the last-piece hash was active; small declaration; finalize; reset; larger undeclared input
            h.reset(l);
            h.set_hint(l, 40, false);
            let small = bytes::gen_kind(rng, 4, 40);
            h.feed(rng, &small);
            h.observe(l);
            h.reset(l);
            let big = bytes::gen_kind(rng, 0, 590);
            h.feed(rng, &big);
            h.feed(rng, &top);
            h.feed(rng, &[9]);
            h.observe(l);
            // (4) declared size smaller than what is fed: every finalization must refuse
            h.reset(l);
            h.set_hint(l, 10, true);
            h.feed(rng, &top);
            h.feed(rng, &top);
            h.observe(l);
        });
        if let Err(p) = r {
            let s = h.sig();
            l.violation("totality", s, format!("generator panicked during [{}]: {}", h.log.join("; "), p));
        }
    }));
    streams.push(Stream::new("hint-reset-histories", o.n(40_000, 3_000_000), move |_i, rng: &mut Rng, l: &mut Local| {
        history(l, rng, wref);
    }));
    let mut rr = run_streams(o, streams);
    rr.local.inconclusive.extend(pre);
    finish(
        o,
        rr,
        Report {
            rule: format!("histories of 1..3 phases separated by reset(); a phase = optional refused declaration (> 192 GiB), a declared size (correct / off by 1..3 / arbitrary / none) placed before, between or after the updates (u64 and usize forms), an optional second declaration (same or different), payload fed in 1..4 chunks through random delivery forms, observations (input_size + four finalizers) at several points, clone-vs-refused-call comparison. First phases are chosen so that reset() has state to forget (several eliminations, a saturated first context, forks up to index 30 and the last-piece hash, a declared size); later phases {} Every observation and every declaration result is compared with the contract model (oracle O1 without any hint + the size rules). Non-trivial = a reset after >= 1 elimination, or a declaration made mid-stream; distinct by operation list.", if HOOK { "may start with the zero-prefix hook at >= 96 GiB followed by level-29/30 trigger words so that stale large-block-size state is observable." } else { "use real data only (hook disabled in this build)." }),
            assumptions: vec!["oracle O1 as in C01 (re-calibrated this run)".into(), "hook verif_skip_zero_prefix is validated against real feeding by the C13 check".into()],
            exhaustive: false,
            min_nontrivial: 5000 * o.scale_pct / 100,
            extra: vec![("hook_enabled".into(), J::B(HOOK))],
        },
    )
}

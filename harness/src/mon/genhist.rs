//! Shared by C03/C12/C13: delivery forms, observation of a generator, and the
//! contract model (oracle O1 + size-hint rules) that predicts every observation.
#![allow(dead_code)]

use crate::ctx::Local;
use crate::oracle::refctph::{State, FLAG_NOTRUNC};
use crate::util::{bh2_len, res_text};
use ssdeep::{Generator, GeneratorError};

pub const MAX_INPUT: u64 = 192u64 << 30;
pub const N_FORMS: u64 = 8;
pub const FORM_NAMES: [&str; 8] = ["update", "update_by_iter", "update_by_byte", "+=&[u8]", "+=&[u8;N]/+=u8", "+=u8", "update_by_iter(filter)", "update_by_iter(flat_map)"];

pub fn feed(g: &mut Generator, form: u64, chunk: &[u8]) {
    match form % N_FORMS {
        0 => {
            g.update(chunk);
        }
        1 => {
            g.update_by_iter(chunk.iter().copied());
        }
        2 => {
            for &b in chunk {
                g.update_by_byte(b);
            }
        }
        3 => {
            *g += chunk;
        }
        4 => {
            // array form with a length that depends on the chunk (1..257: below, at and above the
            // 7-byte window, the 64-symbol capacity and one byte of length), remainder by single bytes
            macro_rules! arrays {
                ($n:literal) => {{
                    let mut it = chunk.chunks_exact($n);
                    for c in &mut it {
                        let a: &[u8; $n] = c.try_into().unwrap();
                        *g += a;
                    }
                    for &b in it.remainder() {
                        *g += b;
                    }
                }};
            }
            match chunk.len() % 8 {
                0 => arrays!(5),
                1 => arrays!(1),
                2 => arrays!(7),
                3 => arrays!(8),
                4 => arrays!(9),
                5 => arrays!(16),
                6 => arrays!(64),
                _ => arrays!(257),
            }
        }
        5 => {
            for &b in chunk {
                *g += b;
            }
        }
        6 => {
            // size_hint().1 == Some(len) but the lower bound is 0
            g.update_by_iter(chunk.iter().copied().filter(|_| true));
        }
        _ => {
            // no useful size_hint at all
            g.update_by_iter(chunk.chunks(3).flat_map(|c| c.iter().copied()));
        }
    }
}

#[derive(Clone, Debug, PartialEq, Eq)]
pub struct Obs {
    pub size: u64,
    pub f: String,
    pub fwt: String,
    pub short_nt: String,
    pub long_t: String,
}

pub fn observe(g: &Generator) -> Obs {
    Obs {
        size: g.input_size(),
        f: res_text(&g.finalize()),
        fwt: res_text(&g.finalize_without_truncation()),
        short_nt: res_text(&g.finalize_raw::<false, 64, 32>()),
        long_t: res_text(&g.finalize_raw::<true, 64, 64>()),
    }
}

/// contract model of one generator since its creation / last reset
#[derive(Clone)]
pub struct GModel {
    pub st: State,
    pub hint: Option<u64>,
    pub fed_real: u64,
}

impl GModel {
    pub fn new() -> Self {
        GModel { st: State::new(), hint: None, fed_real: 0 }
    }
    pub fn reset(&mut self) {
        *self = GModel::new();
    }
    pub fn update(&mut self, b: &[u8]) {
        self.st.update(b);
        self.fed_real += b.len() as u64;
    }
    pub fn zeros(&mut self, n: u64) {
        self.st.jump_zeros(n);
    }
    pub fn total(&self) -> u64 {
        self.st.total()
    }
    /// Ok(()) or the error the contract demands; applies the hint when accepted
    pub fn set_hint(&mut self, n: u64) -> Result<(), GeneratorError> {
        if n > MAX_INPUT {
            return Err(GeneratorError::FixedSizeTooLarge);
        }
        if let Some(h) = self.hint {
            if h != n {
                return Err(GeneratorError::FixedSizeMismatch);
            }
        }
        self.hint = Some(n);
        Ok(())
    }
    pub fn expect(&self) -> Obs {
        let size = self.total();
        let err = |e: GeneratorError| format!("Err({:?})", e);
        if let Some(h) = self.hint {
            if h != size {
                let e = err(GeneratorError::FixedSizeMismatch);
                return Obs { size, f: e.clone(), fwt: e.clone(), short_nt: e.clone(), long_t: e };
            }
        }
        if size > MAX_INPUT {
            let e = err(GeneratorError::InputSizeTooLarge);
            return Obs { size, f: e.clone(), fwt: e.clone(), short_nt: e.clone(), long_t: e };
        }
        // the hint never changes the hash: the oracle state carries no hint at all
        let d0 = self.st.digest(0).expect("oracle digest");
        let dn = self.st.digest(FLAG_NOTRUNC).expect("oracle digest");
        let short_nt = if bh2_len(&dn) > 32 { err(GeneratorError::OutputOverflow) } else { dn.clone() };
        Obs { size, f: d0.clone(), fwt: dn, short_nt, long_t: d0 }
    }
}

/// compares an observation with the model's prediction; one violation per differing field
pub fn compare_obs(l: &mut Local, monitor: &str, sig: &str, ctx: &str, got: &Obs, want: &Obs) -> bool {
    l.eval(5);
    let mut ok = true;
    macro_rules! cmp {
        ($field:ident, $name:expr) => {
            if got.$field != want.$field {
                ok = false;
                l.violation(
                    monitor,
                    format!("{}|{}", sig, $name),
                    format!("{}: {} gives {} but the contract (ssdeep + size rules) demands {}", ctx, $name, got.$field, want.$field),
                );
            }
        };
    }
    cmp!(size, "input_size()");
    cmp!(f, "finalize()");
    cmp!(fwt, "finalize_without_truncation()");
    cmp!(short_nt, "finalize_raw::<false,64,32>()");
    cmp!(long_t, "finalize_raw::<true,64,64>()");
    ok
}

//! C18 - stream and file hashing fail closed under I/O faults.
//! Parts (1) failing/short readers and (2) special files run here; part (3),
//! syscall fault injection with strace around `vh c18-child`, is driven by ./check.

use crate::ctx::Opts;

#[cfg(not(feature = "ffstd"))]
pub fn run(_o: &Opts) -> i32 {
    eprintln!("C18 needs the std easy functions");
    3
}
#[cfg(not(feature = "ffstd"))]
pub fn child(_o: &Opts) -> i32 {
    3
}

#[cfg(feature = "ffstd")]
pub use imp::{child, run};

#[cfg(feature = "ffstd")]
mod imp {
    use crate::ctx::{finish, guard, run_streams, Local, Opts, Report, Stream};
    use crate::json::{bytes_desc, J};
    use crate::mon::common;
    use crate::oracle::refctph;
    use crate::rng::{fnv64, Rng};
    use crate::util::text_of;
    use crate::work::bytes;
    use ssdeep::{GeneratorError, GeneratorOrIOError};
    use std::io::{ErrorKind, Read};

    pub const KINDS: [ErrorKind; 20] = [
        ErrorKind::NotFound,
        ErrorKind::PermissionDenied,
        ErrorKind::ConnectionRefused,
        ErrorKind::ConnectionReset,
        ErrorKind::ConnectionAborted,
        ErrorKind::NotConnected,
        ErrorKind::AddrInUse,
        ErrorKind::AddrNotAvailable,
        ErrorKind::BrokenPipe,
        ErrorKind::AlreadyExists,
        ErrorKind::WouldBlock,
        ErrorKind::InvalidInput,
        ErrorKind::InvalidData,
        ErrorKind::TimedOut,
        ErrorKind::WriteZero,
        ErrorKind::Interrupted,
        ErrorKind::Unsupported,
        ErrorKind::UnexpectedEof,
        ErrorKind::OutOfMemory,
        ErrorKind::Other,
    ];

    /// W8: delivers `data` in the given read sizes; fails with `fail.1` at read index `fail.0`
    pub struct FaultyReader<'a> {
        pub data: &'a [u8],
        pub pos: usize,
        pub sizes: Vec<usize>,
        pub reads: usize,
        pub fail: Option<(usize, ErrorKind)>,
        pub delivered_before_fault: usize,
        /// stop (return Ok(0)) after this many bytes even if data remains
        pub eof_at: usize,
    }
    impl<'a> Read for FaultyReader<'a> {
        fn read(&mut self, buf: &mut [u8]) -> std::io::Result<usize> {
            let idx = self.reads;
            self.reads += 1;
            if let Some((j, k)) = self.fail {
                if idx == j {
                    self.delivered_before_fault = self.pos;
                    return Err(std::io::Error::new(k, "injected fault"));
                }
            }
            let want = self.sizes[idx % self.sizes.len()].max(1);
            let end = self.eof_at.min(self.data.len());
            let n = want.min(buf.len()).min(end - self.pos.min(end));
            buf[..n].copy_from_slice(&self.data[self.pos..self.pos + n]);
            self.pos += n;
            Ok(n)
        }
    }

    fn read_sizes(rng: &mut Rng) -> Vec<usize> {
        match rng.below(8) {
            0 => vec![1],
            1 => vec![2],
            2 => vec![7],
            3 => vec![4095],
            4 => vec![32767],
            5 => vec![32768],
            6 => vec![32769],
            _ => (0..rng.urange(1, 6)).map(|_| rng.urange(1, 40000)).collect(),
        }
    }

    fn payload_size(rng: &mut Rng) -> usize {
        match rng.below(10) {
            0 => 0,
            1 => 1,
            2 => 32767 + rng.usize_below(3),
            3 => 65535 + rng.usize_below(3),
            4 => 100_001,
            _ => rng.log_len(70_000),
        }
    }

    fn reader_case(l: &mut Local, rng: &mut Rng, forced: Option<(usize, usize)>) {
        let psz = payload_size(rng);
        let pk = rng.usize_below(5);
        let data = bytes::gen_kind(rng, pk, psz);
        let sizes = if forced.is_some() { vec![*rng.pick(&[4095usize, 32768, 2000])] } else { read_sizes(rng) };
        // number of reads a fault-free run performs
        let mut probe = FaultyReader { data: &data, pos: 0, sizes: sizes.clone(), reads: 0, fail: None, delivered_before_fault: 0, eof_at: usize::MAX };
        let clean = guard(|| ssdeep::hash_stream(&mut probe).map(|h| text_of(&h)).map_err(|e| format!("{:?}", e)));
        let n_reads = probe.reads;
        let want = refctph::digest_pair(&data).0;
        let sig = |w: &str| format!("C18|reader|{}|len={}|fnv={:016x}|sizes={:?}", w, data.len(), fnv64(&data), sizes);
        l.eval(1);
        l.check(matches!(&clean, Ok(Ok(t)) if *t == want), "short-reads-hash", || {
            (sig("clean"), format!("hash_stream over a reader delivering {} bytes in reads of {:?} gives {:?}, the hash of the delivered bytes is {}", data.len(), sizes, clean, want))
        });
        // premature end of stream (Ok(0) before all data): the hash of what was delivered
        if !data.is_empty() && rng.chance(1, 3) {
            let cut = rng.usize_below(data.len());
            let mut rd = FaultyReader { data: &data, pos: 0, sizes: sizes.clone(), reads: 0, fail: None, delivered_before_fault: 0, eof_at: cut };
            let r = guard(|| ssdeep::hash_stream(&mut rd).map(|h| text_of(&h)).map_err(|e| format!("{:?}", e)));
            let w2 = refctph::digest_pair(&data[..cut]).0;
            l.eval(1);
            l.check(matches!(&r, Ok(Ok(t)) if *t == w2), "short-reads-hash", || (sig(&format!("eof@{}", cut)), format!("reader ending after {} of {} bytes: hash_stream gives {:?}, expected the hash of the delivered prefix {}", cut, data.len(), r, w2)));
        }
        // fault at a chosen / every read index
        let indices: Vec<usize> = match forced {
            Some((j, _)) => vec![j.min(n_reads.saturating_sub(1))],
            None => {
                if n_reads <= 40 {
                    (0..n_reads).collect()
                } else {
                    let mut v: Vec<usize> = (0..8).map(|_| rng.usize_below(n_reads)).collect();
                    v.push(0);
                    v.push(n_reads - 1);
                    v
                }
            }
        };
        for j in indices {
            let kind = match forced {
                Some((_, k)) => KINDS[k % KINDS.len()],
                None => KINDS[rng.usize_below(KINDS.len())],
            };
            let mut rd = FaultyReader { data: &data, pos: 0, sizes: sizes.clone(), reads: 0, fail: Some((j, kind)), delivered_before_fault: 0, eof_at: usize::MAX };
            let r = guard(|| ssdeep::hash_stream(&mut rd));
            l.eval(1);
            match r {
                Err(p) => l.violation("totality", sig(&format!("fault@{}:{:?}:panic", j, kind)), format!("hash_stream panicked on an injected {:?} at read {}: {}", kind, j, p)),
                Ok(Ok(h)) => l.violation(
                    "fail-closed",
                    sig(&format!("fault@{}:{:?}", j, kind)),
                    format!("hash_stream returned the hash {} although read {} of {} failed with {:?} ({} bytes had been delivered)", text_of(&h), j, n_reads, kind, rd.delivered_before_fault),
                ),
                Ok(Err(GeneratorOrIOError::IOError(e))) => {
                    l.check(e.kind() == kind, "error-passed-through", || (sig(&format!("fault@{}:{:?}:kind", j, kind)), format!("injected {:?} at read {} came back as {:?}", kind, j, e.kind())));
                    l.hist("fault_kind", format!("{:?}", kind));
                    if j > 0 {
                        l.nt(fnv64(&data) ^ ((j as u64) << 32) ^ kind as u64);
                    }
                }
                Ok(Err(GeneratorOrIOError::GeneratorError(e))) => l.violation("error-passed-through", sig(&format!("fault@{}:{:?}:generr", j, kind)), format!("injected {:?} at read {} came back as generator error {:?}", kind, j, e)),
            }
        }
        l.histn("reads_per_run", (n_reads as u64).min(99));
        l.sample(|| J::obj().set("payload", bytes_desc(&data)).set("read_sizes", J::s(format!("{:?}", sizes))).set("reads", J::U(n_reads as u64)));
    }

    fn classify(r: &Result<ssdeep::RawFuzzyHash, GeneratorOrIOError>) -> String {
        match r {
            Ok(h) => format!("OK {}", text_of(h)),
            Err(GeneratorOrIOError::IOError(e)) => format!("ERR io {:?}", e.kind()),
            Err(GeneratorOrIOError::GeneratorError(e)) => format!("ERR generator {:?}", e),
        }
    }

    /// `vh c18-child <path>`: prints the outcome of hash_file on one line
    pub fn child(o: &Opts) -> i32 {
        let path = match o.extra.iter().find(|e| e.starts_with("path=")) {
            Some(p) => p[5..].to_string(),
            None => return 3,
        };
        let r = ssdeep::hash_file(&path);
        println!("{}", classify(&r));
        0
    }

    fn tmp_dir(o: &Opts) -> std::path::PathBuf {
        let base = o.extra.iter().find(|e| e.starts_with("tmp=")).map(|e| e[4..].to_string()).unwrap_or_else(|| "/verif/build/tmp".to_string());
        let p = std::path::PathBuf::from(base).join(format!("c18-{}", std::process::id()));
        let _ = std::fs::create_dir_all(&p);
        p
    }

    fn file_cases(l: &mut Local, rng: &mut Rng, base: &std::path::Path) {
        let sig = |w: &str| format!("C18|file|{}", w);
        // one private directory per case: cases run concurrently
        let dirbuf = base.join(format!("case-{}", l.index));
        let _ = std::fs::create_dir_all(&dirbuf);
        let dir: &std::path::Path = &dirbuf;
        // regular files: must hash to ssdeep's value
        for (k, sz) in [0usize, 1, 4096, 32768, 32769, 100_001].iter().enumerate() {
            let data = bytes::gen_kind(rng, k, *sz);
            let p = dir.join(format!("regular-{}.bin", k));
            if std::fs::write(&p, &data).is_err() {
                l.inconclusive("cannot write scratch files for C18".to_string());
                return;
            }
            let r = guard(|| ssdeep::hash_file(&p));
            let want = refctph::digest_pair(&data).0;
            l.eval(1);
            l.check(matches!(&r, Ok(Ok(h)) if text_of(h) == want), "file-hash", || (sig(&format!("regular{}", sz)), format!("hash_file of a regular {}-byte file gives {:?}, expected {}", sz, r.as_ref().map(classify), want)));
            l.nt(0xF11E + *sz as u64);
        }
        // files whose metadata size disagrees with the delivered content, missing path, directory
        let mut specials: Vec<(String, &str)> = vec![
            ("/proc/self/status".into(), "procfs entry (size 0, content > 0)"),
            ("/proc/cpuinfo".into(), "procfs entry (size 0, content > 0)"),
            ("/sys/kernel/mm/transparent_hugepage/enabled".into(), "sysfs entry (size 4096, content shorter)"),
            (dir.join("does-not-exist").to_string_lossy().into_owned(), "missing path"),
            (dir.to_string_lossy().into_owned(), "directory"),
        ];
        // a FIFO into which a helper thread writes n > 0 bytes (metadata size 0)
        let fifo = dir.join("fifo");
        let made = std::process::Command::new("mkfifo").arg(&fifo).status().map(|s| s.success()).unwrap_or(false);
        let mut writer = None;
        if made {
            let f2 = fifo.clone();
            let n = 1 + rng.usize_below(5000);
            writer = Some(std::thread::spawn(move || {
                if let Ok(mut f) = std::fs::OpenOptions::new().write(true).open(&f2) {
                    use std::io::Write;
                    let _ = f.write_all(&vec![b'x'; n]);
                }
            }));
            specials.push((fifo.to_string_lossy().into_owned(), "FIFO receiving n > 0 bytes (size 0)"));
        } else {
            l.count("fifo_skipped", 1);
        }
        for (path, what) in specials {
            if what.contains("fs entry") && !std::path::Path::new(&path).exists() {
                l.count("special_file_absent", 1);
                continue;
            }
            let r = guard(|| ssdeep::hash_file(&path));
            l.eval(1);
            match r {
                Err(p) => l.violation("totality", sig(&format!("{}|panic", path)), format!("hash_file({}) panicked: {}", path, p)),
                Ok(Ok(h)) => l.violation("fail-closed", sig(&path), format!("hash_file({}) [{}] returned the hash {} although the delivered byte count cannot match the metadata size / the path cannot be hashed", path, what, text_of(&h))),
                Ok(Err(e)) => {
                    l.hist("special_file_error", format!("{}: {}", what, classify(&Err(e))));
                    l.nt(fnv64(path.as_bytes()));
                }
            }
        }
        if let Some(w) = writer {
            let _ = w.join();
        }
        let _ = GeneratorError::FixedSizeMismatch;
    }

    pub fn run(o: &Opts) -> i32 {
        let mut pre = Vec::new();
        if let Err(e) = common::selfcheck(o) {
            pre.push(format!("oracle O1 failed its calibration: {}", e));
        }
        let dir = tmp_dir(o);
        let dref = &dir;
        let mut streams: Vec<Stream> = Vec::new();
        streams.push(Stream::new("readers-random", o.n(3_000, 300_000), |_i, rng: &mut Rng, l: &mut Local| {
            reader_case(l, rng, None);
        }));
        // every error kind x first / middle / last read
        streams.push(Stream::new("every-kind-every-position", KINDS.len() as u64 * 3 * o.n(2, 50), |i, rng: &mut Rng, l: &mut Local| {
            let k = (i as usize) % KINDS.len();
            let pos = [0usize, 1, usize::MAX][(i as usize / KINDS.len()) % 3];
            reader_case(l, rng, Some((pos, k)));
        }));
        streams.push(
            Stream::new("files", o.n(2, 20), move |_i, rng: &mut Rng, l: &mut Local| {
                file_cases(l, rng, dref);
            })
            .grain(1),
        );
        let mut rr = run_streams(o, streams);
        let _ = std::fs::remove_dir_all(&dir);
        rr.local.inconclusive.extend(pre);
        finish(
            o,
            rr,
            Report {
                rule: "(1) hash_stream over readers delivering a payload (sizes 0, 1, 32 KiB+-1, 64 KiB+-1, 100001, log-uniform) in read sizes {1,2,7,4095,32767,32768,32769,random}: fault-free runs and premature Ok(0) must give the hash of the delivered bytes (oracle O1); a fault of every std::io::ErrorKind at EVERY read index (<= 40 reads; sampled beyond) must come back as IOError of that kind and never as a hash. (2) hash_file on regular files (= O1), procfs/sysfs entries whose metadata size disagrees with the content, a FIFO fed by a helper thread, a directory, a missing path: must be an error. (3) [driver] hash_file in a child process under strace syscall fault injection. Non-trivial = fault injected after >= 1 successful read / special file case; distinct by (payload, read index, kind).".into(),
                assumptions: vec!["any error is acceptable for special files; only Ok is a violation".into()],
                exhaustive: false,
                min_nontrivial: 500 * o.scale_pct / 100,
                extra: vec![],
            },
        )
    }
}

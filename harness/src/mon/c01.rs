//! C01 - generated hashes equal ssdeep/libfuzzy 2.14.1 (oracle O1, cross-checked by O2).

use crate::ctx::{finish, guard, run_streams, Local, Opts, Report, Stream};
use crate::json::{bytes_desc, J};
use crate::mon::common;
use crate::oracle::{naive, refctph};
use crate::rng::{fnv64, Rng};
use crate::util::*;
use crate::work::bytes::{self, Words};
use ssdeep::{Generator, GeneratorError};

const NAIVE_MAX: usize = 48 * 1024;

/// the monitor proper: one input, all finalisers
pub fn check_input(l: &mut Local, data: &[u8], tag: &str) {
    let (d0, dn, st) = refctph::digest_pair(data);
    l.eval(1);
    // cross-check of the oracle by the naive definition
    if data.len() <= NAIVE_MAX && !bytes::tiny() {
        let nv = naive::hash(data);
        if nv.text_trunc != d0 || nv.text_notrunc != dn {
            l.inconclusive(format!(
                "oracle disagreement O1 vs O2 on input len={} fnv={:016x}: O1 {} / {}  O2 {} / {}",
                data.len(),
                fnv64(data),
                d0,
                dn,
                nv.text_trunc,
                nv.text_notrunc
            ));
            return;
        }
        l.count("o2_crosschecked", 1);
    }
    let sig = |what: &str| format!("C01|{}|len={}|fnv={:016x}", what, data.len(), fnv64(data));
    let r = guard(|| {
        let mut g = Generator::new();
        g.update(data);
        let size = g.input_size();
        let f = g.finalize();
        let fwt = g.finalize_without_truncation();
        let short_nt = g.finalize_raw::<false, 64, 32>();
        let long_t = g.finalize_raw::<true, 64, 64>();
        #[cfg(a4lg_ffuzzy_verif)]
        let probe = Some(g.verif_probe());
        #[cfg(not(a4lg_ffuzzy_verif))]
        let probe: Option<(usize, usize, usize, bool, u64)> = None;
        (size, res_text(&f), res_text(&fwt), short_nt.map(|h| text_of(&h)), res_text(&long_t), probe)
    });
    let (size, f, fwt, short_nt, long_t, probe) = match r {
        Ok(x) => x,
        Err(p) => {
            l.violation("totality", sig("panic"), format!("generator panicked on {} input: {}", tag, p));
            return;
        }
    };
    l.check(size == data.len() as u64, "input_size", || {
        (sig("input_size"), format!("input_size()={} but {} bytes were fed", size, data.len()))
    });
    l.check(f == d0, "finalize", || {
        (sig("finalize"), format!("finalize()={} ssdeep={} ({} input)", f, d0, tag))
    });
    l.check(fwt == dn, "finalize_without_truncation", || {
        (sig("finalize_without_truncation"), format!("finalize_without_truncation()={} ssdeep(NOTRUNC)={}", fwt, dn))
    });
    l.check(long_t == d0, "finalize_raw<true,64,64>", || {
        (sig("finalize_raw_t_64_64"), format!("finalize_raw::<true,64,64>()={} ssdeep={}", long_t, d0))
    });
    let overflow_expected = bh2_len(&dn) > 32;
    match &short_nt {
        Ok(t) => {
            l.check(!overflow_expected && *t == dn, "finalize_raw<false,64,32>", || {
                (sig("finalize_raw_f_64_32"), format!("finalize_raw::<false,64,32>()=Ok({}) ssdeep(NOTRUNC)={} (block hash 2 has {} chars)", t, dn, bh2_len(&dn)))
            });
        }
        Err(e) => {
            l.check(overflow_expected && *e == GeneratorError::OutputOverflow, "finalize_raw<false,64,32>", || {
                (sig("finalize_raw_f_64_32"), format!("finalize_raw::<false,64,32>()=Err({:?}) ssdeep(NOTRUNC)={}", e, dn))
            });
            if overflow_expected {
                l.count("output_overflow", 1);
            }
        }
    }
    #[cfg(feature = "ffstd")]
    {
        let hb = guard(|| ssdeep::hash_buf(data).map(|h| text_of(&h)));
        match hb {
            Ok(Ok(t)) => {
                l.check(t == d0, "hash_buf", || (sig("hash_buf"), format!("hash_buf()={} ssdeep={}", t, d0)));
            }
            Ok(Err(e)) => l.violation("hash_buf", sig("hash_buf"), format!("hash_buf() failed with {:?}", e)),
            Err(p) => l.violation("totality", sig("hash_buf-panic"), format!("hash_buf panicked: {}", p)),
        }
    }
    // evidence
    let (bhstart, bhend, need_last) = st.probe();
    l.histn("out_block_index", st.out_index() as u64);
    l.histn("fork_depth", bhend as u64);
    l.histn("eliminations", bhstart as u64);
    if need_last {
        l.count("last_hash_active", 1);
    }
    if st.n_sat > 0 {
        l.count("saturated_context", 1);
    }
    if st.roll_value() == 0 && !data.is_empty() {
        l.count("roll_zero_at_end", 1);
    }
    if let Some(p) = probe {
        l.histn("probe_bhidx_start", p.0 as u64);
        l.histn("probe_bhidx_end", p.1 as u64);
        if p.3 {
            l.count("probe_is_last", 1);
        }
    }
    l.count("bytes", data.len() as u64);
    if st.n_trigger >= 2 {
        l.nt(fnv64(data) ^ (data.len() as u64).rotate_left(40));
    }
    l.sample(|| {
        J::obj()
            .set("kind", J::s(tag))
            .set("input", bytes_desc(data))
            .set("ssdeep", J::s(d0.clone()))
            .set("ssdeep_notrunc", J::s(dn.clone()))
            .set("library", J::s(f.clone()))
    });
}

pub fn run(o: &Opts) -> i32 {
    let mut pre_inconclusive = Vec::new();
    let vectors = match common::selfcheck(o) {
        Ok(n) => n,
        Err(e) => {
            pre_inconclusive.push(format!("oracle O1 failed its calibration: {}", e));
            0
        }
    };
    let words: Words = match common::words_or_inconclusive() {
        Ok(w) => w,
        Err(e) => {
            pre_inconclusive.push(e);
            vec![vec![[0u8; 7]]; 33]
        }
    };
    let w1_max = if o.is_thorough() { 16 << 20 } else { 1 << 20 };
    let w2_pad = if o.is_thorough() { 16 << 20 } else { 1 << 20 };
    let border_n: u32 = if o.is_thorough() { 20 } else { 12 };
    let kinds = if o.is_thorough() { 2 } else { 3 };
    let mut streams: Vec<Stream> = Vec::new();
    // the most hostile inputs first (one case), so that clamped interpreter / sanitizer runs always
    // drive the engine through: forks up to all 31 contexts, the last-piece hash, 0..4 eliminations
    // (odd and even numbers of active contexts) with more data afterwards, saturated contexts
    let wh = &words;
    streams.push(Stream::new("hostile-inputs", 1, move |_i, rng: &mut Rng, l: &mut Local| {
        for (k, pre_len) in [0usize, 230, 420, 800, 1500, 2900].iter().enumerate() {
            for lv in [30usize, 29] {
                let mut d: Vec<u8> = Vec::with_capacity(pre_len + 64);
                let mut r2 = rng.clone();
                for _ in 0..*pre_len {
                    d.push(r2.byte());
                }
                d.extend_from_slice(&wh[lv][k % wh[lv].len()]);
                d.extend_from_slice(b"tail bytes after the top-level trigger");
                d.extend_from_slice(&wh[lv][(k + 1) % wh[lv].len()]);
                d.push(1);
                check_input(l, &d, "hostile");
                if crate::work::bytes::tiny() && *pre_len > 900 {
                    break; // interpreter budget
                }
            }
        }
        // more piece ends at one level than a block hash can hold (70 > 63): the context of the
        // largest block size (which has no successor) and the one below it, back to back
        for lv in [30usize, 29] {
            let mut d: Vec<u8> = Vec::with_capacity(70 * 7 + 1);
            for j in 0..70 {
                d.extend_from_slice(&wh[lv][j % wh[lv].len()]);
            }
            d.push(b'z');
            check_input(l, &d, "hostile-saturating");
        }
        // every trigger word alone (final block size 3): includes, per level, the largest and the
        // smallest rolling hash value that ends a piece there
        for (lv, ws) in wh.iter().enumerate() {
            if crate::work::bytes::tiny() && lv > 2 && lv < 29 {
                continue; // interpreter budget
            }
            for w in ws {
                let mut d: Vec<u8> = w.to_vec();
                d.push(b'a' + (lv as u8 % 26));
                check_input(l, &d, "hostile-single-word");
                let mut d2: Vec<u8> = b"ab".to_vec();
                d2.extend_from_slice(w);
                d2.extend_from_slice(w);
                check_input(l, &d2, "hostile-single-word");
            }
        }
    }));
    streams.push(Stream::new("w1-random", o.n(1500, 40_000), move |_i, rng: &mut Rng, l: &mut Local| {
        let d = bytes::gen_w1(rng, w1_max);
        check_input(l, &d, "W1");
    }));
    streams.push(Stream::new("w1-small", o.n(3000, 200_000), move |_i, rng: &mut Rng, l: &mut Local| {
        let d = bytes::gen_w1(rng, 8192);
        check_input(l, &d, "W1-small");
    }));
    let nb = (border_n as u64 + 1) * 5 * kinds as u64;
    streams.push(
        Stream::new("borders", nb, move |i, rng: &mut Rng, l: &mut Local| {
            let n = (i / (5 * kinds as u64)) as u32;
            let k = ((i / 5) % kinds as u64) as usize;
            let sz = bytes::border_sizes(n)[(i % 5) as usize] as usize;
            // kinds: uniform, text-like, zero-heavy
            let kind = [0usize, 4, 3][k];
            let d = bytes::gen_kind(rng, kind, sz);
            check_input(l, &d, "border");
        })
        .grain(1),
    );
    let wref = &words;
    streams.push(Stream::new("w2-trigger-words", o.n(3000, 40_000), move |_i, rng: &mut Rng, l: &mut Local| {
        let (d, _k) = bytes::gen_w2(rng, wref, w2_pad);
        check_input(l, &d, "W2");
    }));
    if o.is_thorough() {
        // a few multi-GiB inputs (output block-size indices 23/24 with real data)
        streams.push(
            Stream::new("huge", o.n(0, 8), move |i, rng: &mut Rng, l: &mut Local| {
                let sz = if i == 7 { ((1u64 << 32) + 12_345 + rng.below(1000)) as usize } else { ((1u64 << 30) + (i % 4) * (1u64 << 30) - rng.below(3)) as usize };
                let d = bytes::gen_kind(rng, if i % 2 == 0 { 0 } else { 4 }, sz);
                check_input(l, &d, "huge");
            })
            .grain(1),
        );
    }
    let mut rr = run_streams(o, streams);
    rr.local.inconclusive.extend(pre_inconclusive);
    finish(
        o,
        rr,
        Report {
            rule: "inputs: W1 (uniform/low-entropy/periodic/zero-heavy/text, log-uniform length), sizes 192*2^n+{-2..2}, W2 (trigger words of chosen level x counts around 1/31..34/62..66/130 with zero padding to a block-size border). Each input is hashed by the library (update + 4 finalisers + hash_buf) and by the libfuzzy port O1 (cross-checked by the naive definition O2 up to 48 KiB). Non-trivial = O1 saw >= 2 piece triggers; distinct by (length, FNV-64 of content).".into(),
            assumptions: vec![
                format!("oracle O1 is a faithful port of libfuzzy 2.14.1 fuzzy.c (re-calibrated this run on {} real-ssdeep vectors from the repository)", vectors),
                "trigger-word table re-validated against the rolling-hash definition at start-up".into(),
            ],
            exhaustive: false,
            min_nontrivial: 1000 * o.scale_pct / 100,
            extra: vec![("o1_vectors_reproduced".into(), J::U(vectors))],
        },
    )
}

//! Engine shared by C11 (validity) and C15 (conversion content): random histories
//! of safe API calls over one live object of each hash type (so every
//! destination is "dirty": it still holds the result of an earlier operation),
//! tracked by the abstract model O8.

use crate::ctx::{guard, Local};
use crate::json::J;
use crate::oracle::model::{normalize, HV};
use crate::rng::Rng;
use crate::types::HashLike;
use crate::work::bytes::Words;
use crate::work::hashes;
use ssdeep::{
    DualFuzzyHash, FuzzyHash, FuzzyHashCompareTarget, FuzzyHashOperationError, Generator,
    LongDualFuzzyHash, LongFuzzyHash, LongRawFuzzyHash, RawFuzzyHash,
};

#[derive(Clone, Copy, PartialEq, Eq)]
pub enum Mode {
    /// C11: validity, full_eq vs ==, Debug never panics
    Validity,
    /// C15: content equals the abstract model, failed narrowing leaves dest untouched
    Content,
}

pub struct St {
    pub f: FuzzyHash,
    pub r: RawFuzzyHash,
    pub lf: LongFuzzyHash,
    pub lr: LongRawFuzzyHash,
    pub d: DualFuzzyHash,
    pub ld: LongDualFuzzyHash,
    pub t: FuzzyHashCompareTarget,
    pub mf: HV,
    pub mr: HV,
    pub mlf: HV,
    pub mlr: HV,
    pub md: HV,
    pub mld: HV,
    pub log: Vec<String>,
    pub dirty_ops: u32,
    pub conv_ops: u32,
}

fn empty() -> HV {
    HV { log: 0, bh1: vec![], bh2: vec![] }
}

impl St {
    pub fn new() -> Self {
        St {
            f: FuzzyHash::new(),
            r: RawFuzzyHash::new(),
            lf: LongFuzzyHash::new(),
            lr: LongRawFuzzyHash::new(),
            d: DualFuzzyHash::new(),
            ld: LongDualFuzzyHash::new(),
            t: FuzzyHashCompareTarget::new(),
            mf: empty(),
            mr: empty(),
            mlf: empty(),
            mlr: empty(),
            md: empty(),
            mld: empty(),
            log: Vec::new(),
            dirty_ops: 0,
            conv_ops: 0,
        }
    }
}

fn pad<const N: usize>(v: &[u8]) -> [u8; N] {
    let mut a = [0u8; N];
    a[..v.len()].copy_from_slice(v);
    a
}

/// verify one slot after an operation
fn verify<T: HashLike>(l: &mut Local, mode: Mode, h: &T, m: &HV, hist: &[String], full_eq: impl Fn(&T, &T) -> bool) {
    l.eval(1);
    let sig = |what: &str| format!("{}|{}|{}|{}", if mode == Mode::Validity { "C11" } else { "C15" }, T::NAME, what, hist.join(";"));
    if let Ok(Some(why)) = guard(|| h.accessors_inconsistent()) {
        if h.valid() {
            l.violation("accessors", sig("accessors"), format!("{}: array / length accessors disagree with the slice accessors after [{}]: {}", T::NAME, hist.join("; "), why));
        }
    }
    match mode {
        Mode::Validity => {
            if !l.check(h.valid(), "is_valid", || {
                (sig("invalid"), format!("{} failed is_valid() after history [{}]: {:?}", T::NAME, hist.join("; "), h))
            }) {
                return;
            }
            // structural equality must agree with == against an independently built equal value
            let stored = guard(|| h.stored());
            if let Ok(st) = stored {
                let fresh = guard(|| T::build(&st));
                match fresh {
                    Ok(fresh) => {
                        let eq = *h == fresh;
                        let feq = full_eq(h, &fresh);
                        l.check(eq && feq, "full_eq-vs-eq", || {
                            (sig("full_eq"), format!("{}: == gives {} but full_eq gives {} against a freshly built equal value after [{}]: {:?}", T::NAME, eq, feq, hist.join("; "), h))
                        });
                    }
                    Err(p) => l.violation("is_valid", sig("rebuild"), format!("{}: the content of a valid object is refused by the checked constructor ({}) after [{}]: {:?}", T::NAME, p, hist.join("; "), h)),
                }
            } else if let Err(p) = stored {
                l.violation("totality", sig("read"), format!("{}: reading a valid object panicked: {} after [{}]", T::NAME, p, hist.join("; ")));
            }
        }
        Mode::Content => {
            let stored = guard(|| h.stored());
            match stored {
                Ok(st) => {
                    l.check(st == *m, "content", || {
                        (sig("content"), format!("{} holds {} but the conversion chain [{}] yields {}", T::NAME, st.text(), hist.join("; "), m.text()))
                    });
                    if st == *m {
                        let fresh = guard(|| T::build(m));
                        if let Ok(fresh) = fresh {
                            l.check(full_eq(h, &fresh) && *h == fresh, "content-full", || {
                                (sig("content-full"), format!("{} is not structurally equal to a freshly built {} after [{}]: {:?}", T::NAME, m.text(), hist.join("; "), h))
                            });
                        }
                        let tx = guard(|| h.text());
                        if let Ok(tx) = tx {
                            l.check(tx == m.text(), "content-text", || {
                                (sig("content-text"), format!("{} renders as {} but the chain [{}] yields {}", T::NAME, tx, hist.join("; "), m.text()))
                            });
                        }
                    }
                }
                Err(p) => l.violation("content", sig("read"), format!("{}: reading the object panicked: {} after [{}]", T::NAME, p, hist.join("; "))),
            }
        }
    }
}

fn feq_plain<const S1: usize, const S2: usize, const N: bool>(
    a: &ssdeep::FuzzyHashData<S1, S2, N>,
    b: &ssdeep::FuzzyHashData<S1, S2, N>,
) -> bool
where
    ssdeep::constraints::BlockHashSize<S1>: ssdeep::constraints::ConstrainedBlockHashSize,
    ssdeep::constraints::BlockHashSize<S2>: ssdeep::constraints::ConstrainedBlockHashSize,
    ssdeep::constraints::BlockHashSizes<S1, S2>: ssdeep::constraints::ConstrainedBlockHashSizes,
{
    a.full_eq(b)
}
fn feq_d(a: &DualFuzzyHash, b: &DualFuzzyHash) -> bool {
    a.as_normalized().full_eq(b.as_normalized()) && a.to_raw_form().full_eq(&b.to_raw_form())
}
fn feq_ld(a: &LongDualFuzzyHash, b: &LongDualFuzzyHash) -> bool {
    a.as_normalized().full_eq(b.as_normalized()) && a.to_raw_form().full_eq(&b.to_raw_form())
}

macro_rules! v {
    ($l:expr, $mode:expr, $st:expr, f) => { verify($l, $mode, &$st.f, &$st.mf, &$st.log, feq_plain) };
    ($l:expr, $mode:expr, $st:expr, r) => { verify($l, $mode, &$st.r, &$st.mr, &$st.log, feq_plain) };
    ($l:expr, $mode:expr, $st:expr, lf) => { verify($l, $mode, &$st.lf, &$st.mlf, &$st.log, feq_plain) };
    ($l:expr, $mode:expr, $st:expr, lr) => { verify($l, $mode, &$st.lr, &$st.mlr, &$st.log, feq_plain) };
    ($l:expr, $mode:expr, $st:expr, d) => { verify($l, $mode, &$st.d, &$st.md, &$st.log, feq_d) };
    ($l:expr, $mode:expr, $st:expr, ld) => { verify($l, $mode, &$st.ld, &$st.mld, &$st.log, feq_ld) };
}

pub const N_OPS: u64 = 72;

/// Applies one random operation.  A library panic inside an in-contract call
/// propagates to the stream runner's totality monitor.
pub fn step(l: &mut Local, mode: Mode, st: &mut St, rng: &mut Rng, words: &Words) {
    let op = rng.below(N_OPS);
    step_op(l, mode, st, rng, words, op)
}

/// Applies operation number `op` (0..N_OPS).
pub fn step_op(l: &mut Local, mode: Mode, st: &mut St, rng: &mut Rng, words: &Words, op: u64) {
    macro_rules! note { ($($a:tt)*) => { st.log.push(format!($($a)*)) }; }
    match op {
        // ------------------------------------------------ seeding: parse
        0 => {
            let m = hashes::gen_hv(rng, 32, false);
            note!("r=parse({})", m.text());
            st.r = m.text().parse().unwrap();
            st.mr = m;
            v!(l, mode, st, r);
        }
        1 => {
            let m = hashes::gen_hv(rng, 64, false);
            note!("lr=parse({})", m.text());
            st.lr = m.text().parse().unwrap();
            st.mlr = m;
            v!(l, mode, st, lr);
        }
        2 => {
            // raw text (with runs) parsed into the normalizing type; raw length may exceed the
            // capacity only under the default parser, so keep it within capacity here
            let m = hashes::gen_hv(rng, 32, false);
            note!("f=parse({})", m.text());
            st.f = m.text().parse().unwrap();
            st.mf = m.normalized();
            v!(l, mode, st, f);
        }
        3 => {
            let m = hashes::gen_hv(rng, 64, false);
            note!("lf=parse({})", m.text());
            st.lf = m.text().parse().unwrap();
            st.mlf = m.normalized();
            v!(l, mode, st, lf);
        }
        4 => {
            let m = hashes::gen_hv(rng, 32, false);
            note!("d=parse({})", m.text());
            st.d = m.text().parse().unwrap();
            st.md = m;
            v!(l, mode, st, d);
        }
        5 => {
            let m = hashes::gen_hv(rng, 64, false);
            note!("ld=parse({})", m.text());
            st.ld = m.text().parse().unwrap();
            st.mld = m;
            v!(l, mode, st, ld);
        }
        // ------------------------------------------------ seeding: constructors with valid arguments
        6 => {
            let m = hashes::gen_hv(rng, 32, false);
            let which = rng.below(4);
            note!("r=ctor{}({})", which, m.text());
            match which {
                0 => st.r = RawFuzzyHash::new_from_internals(3u32 << m.log, &m.bh1, &m.bh2),
                1 => st.r = RawFuzzyHash::new_from_internals_near_raw(m.log, &m.bh1, &m.bh2),
                2 => st.r = RawFuzzyHash::new_from_internals_raw(m.log, &pad::<64>(&m.bh1), &pad::<32>(&m.bh2), m.bh1.len() as u8, m.bh2.len() as u8),
                _ => st.r.init_from_internals_raw(m.log, &pad::<64>(&m.bh1), &pad::<32>(&m.bh2), m.bh1.len() as u8, m.bh2.len() as u8),
            }
            st.mr = m;
            st.dirty_ops += 1;
            v!(l, mode, st, r);
        }
        7 => {
            let m = hashes::gen_hv(rng, 64, false);
            let which = rng.below(4);
            note!("lr=ctor{}({})", which, m.text());
            match which {
                0 => st.lr = LongRawFuzzyHash::new_from_internals(3u32 << m.log, &m.bh1, &m.bh2),
                1 => st.lr = LongRawFuzzyHash::new_from_internals_near_raw(m.log, &m.bh1, &m.bh2),
                2 => st.lr = LongRawFuzzyHash::new_from_internals_raw(m.log, &pad::<64>(&m.bh1), &pad::<64>(&m.bh2), m.bh1.len() as u8, m.bh2.len() as u8),
                _ => st.lr.init_from_internals_raw(m.log, &pad::<64>(&m.bh1), &pad::<64>(&m.bh2), m.bh1.len() as u8, m.bh2.len() as u8),
            }
            st.mlr = m;
            st.dirty_ops += 1;
            v!(l, mode, st, lr);
        }
        8 => {
            let m = hashes::gen_hv(rng, 32, true);
            let which = rng.below(4);
            note!("f=ctor{}({})", which, m.text());
            match which {
                0 => st.f = FuzzyHash::new_from_internals(3u32 << m.log, &m.bh1, &m.bh2),
                1 => st.f = FuzzyHash::new_from_internals_near_raw(m.log, &m.bh1, &m.bh2),
                2 => st.f = FuzzyHash::new_from_internals_raw(m.log, &pad::<64>(&m.bh1), &pad::<32>(&m.bh2), m.bh1.len() as u8, m.bh2.len() as u8),
                _ => st.f.init_from_internals_raw(m.log, &pad::<64>(&m.bh1), &pad::<32>(&m.bh2), m.bh1.len() as u8, m.bh2.len() as u8),
            }
            st.mf = m;
            st.dirty_ops += 1;
            v!(l, mode, st, f);
        }
        9 => {
            let m = hashes::gen_hv(rng, 64, true);
            let which = rng.below(4);
            note!("lf=ctor{}({})", which, m.text());
            match which {
                0 => st.lf = LongFuzzyHash::new_from_internals(3u32 << m.log, &m.bh1, &m.bh2),
                1 => st.lf = LongFuzzyHash::new_from_internals_near_raw(m.log, &m.bh1, &m.bh2),
                2 => st.lf = LongFuzzyHash::new_from_internals_raw(m.log, &pad::<64>(&m.bh1), &pad::<64>(&m.bh2), m.bh1.len() as u8, m.bh2.len() as u8),
                _ => st.lf.init_from_internals_raw(m.log, &pad::<64>(&m.bh1), &pad::<64>(&m.bh2), m.bh1.len() as u8, m.bh2.len() as u8),
            }
            st.mlf = m;
            st.dirty_ops += 1;
            v!(l, mode, st, lf);
        }
        10 => {
            let m = hashes::gen_hv(rng, 32, false);
            let which = rng.below(2);
            note!("d=ctor{}({})", which, m.text());
            st.d = if which == 0 { DualFuzzyHash::new_from_internals(3u32 << m.log, &m.bh1, &m.bh2) } else { DualFuzzyHash::new_from_internals_near_raw(m.log, &m.bh1, &m.bh2) };
            st.md = m;
            v!(l, mode, st, d);
        }
        11 => {
            let m = hashes::gen_hv(rng, 64, false);
            let which = rng.below(2);
            note!("ld=ctor{}({})", which, m.text());
            st.ld = if which == 0 { LongDualFuzzyHash::new_from_internals(3u32 << m.log, &m.bh1, &m.bh2) } else { LongDualFuzzyHash::new_from_internals_near_raw(m.log, &m.bh1, &m.bh2) };
            st.mld = m;
            v!(l, mode, st, ld);
        }
        // ------------------------------------------------ seeding: generator
        12 => {
            let (data, _) = crate::work::bytes::gen_w2(rng, words, 2048);
            let mut g = Generator::new();
            g.update(&data);
            note!("r=generate(len={},fnv={:016x})", data.len(), crate::rng::fnv64(&data));
            st.r = g.finalize().unwrap();
            st.mr = HV::new(st.r.log_block_size(), st.r.block_hash_1(), st.r.block_hash_2());
            st.lr = g.finalize_without_truncation().unwrap();
            st.mlr = HV::new(st.lr.log_block_size(), st.lr.block_hash_1(), st.lr.block_hash_2());
            v!(l, mode, st, r);
            v!(l, mode, st, lr);
        }
        // ------------------------------------------------ normalization
        13 => {
            note!("r.normalize_in_place()");
            st.r.normalize_in_place();
            st.mr = st.mr.normalized();
            v!(l, mode, st, r);
        }
        14 => {
            note!("lr.normalize_in_place()");
            st.lr.normalize_in_place();
            st.mlr = st.mlr.normalized();
            v!(l, mode, st, lr);
        }
        15 => {
            note!("f.normalize_in_place();lf.normalize_in_place()");
            st.f.normalize_in_place();
            st.lf.normalize_in_place();
            v!(l, mode, st, f);
            v!(l, mode, st, lf);
        }
        16 => {
            note!("d.normalize_in_place()");
            st.d.normalize_in_place();
            st.md = st.md.normalized();
            v!(l, mode, st, d);
        }
        17 => {
            note!("ld.normalize_in_place()");
            st.ld.normalize_in_place();
            st.mld = st.mld.normalized();
            v!(l, mode, st, ld);
        }
        18 => {
            let which = rng.below(3);
            note!("f=normalize{}(r)", which);
            st.f = match which {
                0 => st.r.normalize(),
                1 => FuzzyHash::from_raw_form(&st.r),
                _ => FuzzyHash::from(st.r),
            };
            st.mf = st.mr.normalized();
            st.conv_ops += 1;
            v!(l, mode, st, f);
        }
        19 => {
            let which = rng.below(3);
            note!("lf=normalize{}(lr)", which);
            st.lf = match which {
                0 => st.lr.normalize(),
                1 => LongFuzzyHash::from_raw_form(&st.lr),
                _ => LongFuzzyHash::from(st.lr),
            };
            st.mlf = st.mlr.normalized();
            st.conv_ops += 1;
            v!(l, mode, st, lf);
        }
        20 => {
            note!("r=r.clone_normalized();f=f.clone_normalized()");
            st.r = st.r.clone_normalized();
            st.mr = st.mr.normalized();
            st.f = st.f.clone_normalized();
            v!(l, mode, st, r);
            v!(l, mode, st, f);
        }
        21 => {
            note!("lr=lr.clone_normalized();lf=lf.normalize()");
            st.lr = st.lr.clone_normalized();
            st.mlr = st.mlr.normalized();
            st.lf = st.lf.normalize();
            v!(l, mode, st, lr);
            v!(l, mode, st, lf);
        }
        // ------------------------------------------------ normalized -> raw reinterpretation
        22 => {
            let which = rng.below(4);
            note!("r=raw{}(f)", which);
            match which {
                0 => st.r = st.f.to_raw_form(),
                1 => {
                    st.f.into_mut_raw_form(&mut st.r);
                    st.dirty_ops += 1;
                }
                2 => st.r = RawFuzzyHash::from(st.f),
                _ => st.r = RawFuzzyHash::from_normalized(&st.f),
            }
            st.mr = st.mf.clone();
            st.conv_ops += 1;
            v!(l, mode, st, r);
        }
        23 => {
            let which = rng.below(4);
            note!("lr=raw{}(lf)", which);
            match which {
                0 => st.lr = st.lf.to_raw_form(),
                1 => {
                    st.lf.into_mut_raw_form(&mut st.lr);
                    st.dirty_ops += 1;
                }
                2 => st.lr = LongRawFuzzyHash::from(st.lf),
                _ => st.lr = LongRawFuzzyHash::from_normalized(&st.lf),
            }
            st.mlr = st.mlf.clone();
            st.conv_ops += 1;
            v!(l, mode, st, lr);
        }
        // ------------------------------------------------ widening
        24 | 25 => {
            let which = rng.below(4);
            note!("lf=long{}(f)", which);
            match which {
                0 => st.lf = st.f.to_long_form(),
                1 => {
                    st.f.into_mut_long_form(&mut st.lf);
                    st.dirty_ops += 1;
                }
                2 => st.lf = LongFuzzyHash::from(st.f),
                _ => st.lf = LongFuzzyHash::from_short_form(&st.f),
            }
            st.mlf = st.mf.clone();
            st.conv_ops += 1;
            v!(l, mode, st, lf);
        }
        26 | 27 => {
            let which = rng.below(4);
            note!("lr=long{}(r)", which);
            match which {
                0 => st.lr = st.r.to_long_form(),
                1 => {
                    st.r.into_mut_long_form(&mut st.lr);
                    st.dirty_ops += 1;
                }
                2 => st.lr = LongRawFuzzyHash::from(st.r),
                _ => st.lr = LongRawFuzzyHash::from_short_form(&st.r),
            }
            st.mlr = st.mr.clone();
            st.conv_ops += 1;
            v!(l, mode, st, lr);
        }
        28 => {
            note!("lr=LongRaw::from(f)");
            st.lr = LongRawFuzzyHash::from(st.f);
            st.mlr = st.mf.clone();
            st.conv_ops += 1;
            v!(l, mode, st, lr);
        }
        // ------------------------------------------------ narrowing
        29 | 30 | 31 => {
            let which = rng.below(2);
            note!("f=short{}(lf)", which);
            let before = st.f;
            let fits = st.mlf.bh2.len() <= 32;
            let res: Result<(), FuzzyHashOperationError> = if which == 0 {
                st.dirty_ops += 1;
                st.lf.try_into_mut_short(&mut st.f)
            } else {
                FuzzyHash::try_from(st.lf).map(|x| st.f = x)
            };
            narrowing_checks(l, mode, "FuzzyHash", fits, &res, before.full_eq(&st.f), &st.log);
            if res.is_ok() {
                st.mf = st.mlf.clone();
            }
            st.conv_ops += 1;
            v!(l, mode, st, f);
        }
        32 | 33 | 34 => {
            let which = rng.below(2);
            note!("r=short{}(lr)", which);
            let before = st.r;
            let fits = st.mlr.bh2.len() <= 32;
            let res: Result<(), FuzzyHashOperationError> = if which == 0 {
                st.dirty_ops += 1;
                st.lr.try_into_mut_short(&mut st.r)
            } else {
                RawFuzzyHash::try_from(st.lr).map(|x| st.r = x)
            };
            narrowing_checks(l, mode, "RawFuzzyHash", fits, &res, before.full_eq(&st.r), &st.log);
            if res.is_ok() {
                st.mr = st.mlr.clone();
            }
            st.conv_ops += 1;
            v!(l, mode, st, r);
        }
        // ------------------------------------------------ dual: compress
        35 | 36 => {
            let which = rng.below(3);
            note!("d=dual{}(r)", which);
            match which {
                0 => {
                    st.d.init_from_raw_form(&st.r);
                    st.dirty_ops += 1;
                }
                1 => st.d = DualFuzzyHash::from_raw_form(&st.r),
                _ => st.d = DualFuzzyHash::from(st.r),
            }
            st.md = st.mr.clone();
            st.conv_ops += 1;
            v!(l, mode, st, d);
        }
        37 | 38 => {
            let which = rng.below(3);
            note!("ld=dual{}(lr)", which);
            match which {
                0 => {
                    st.ld.init_from_raw_form(&st.lr);
                    st.dirty_ops += 1;
                }
                1 => st.ld = LongDualFuzzyHash::from_raw_form(&st.lr),
                _ => st.ld = LongDualFuzzyHash::from(st.lr),
            }
            st.mld = st.mlr.clone();
            st.conv_ops += 1;
            v!(l, mode, st, ld);
        }
        39 => {
            let which = rng.below(2);
            note!("d=dualnorm{}(f)", which);
            st.d = if which == 0 { DualFuzzyHash::from_normalized(&st.f) } else { DualFuzzyHash::from(st.f) };
            st.md = st.mf.clone();
            st.conv_ops += 1;
            v!(l, mode, st, d);
        }
        40 => {
            let which = rng.below(2);
            note!("ld=dualnorm{}(lf)", which);
            st.ld = if which == 0 { LongDualFuzzyHash::from_normalized(&st.lf) } else { LongDualFuzzyHash::from(st.lf) };
            st.mld = st.mlf.clone();
            st.conv_ops += 1;
            v!(l, mode, st, ld);
        }
        // ------------------------------------------------ dual: expand
        41 | 42 => {
            let which = rng.below(2);
            note!("r=expand{}(d)", which);
            if which == 0 {
                st.d.into_mut_raw_form(&mut st.r);
                st.dirty_ops += 1;
            } else {
                st.r = st.d.to_raw_form();
            }
            st.mr = st.md.clone();
            st.conv_ops += 1;
            v!(l, mode, st, r);
        }
        43 | 44 => {
            let which = rng.below(2);
            note!("lr=expand{}(ld)", which);
            if which == 0 {
                st.ld.into_mut_raw_form(&mut st.lr);
                st.dirty_ops += 1;
            } else {
                st.lr = st.ld.to_raw_form();
            }
            st.mlr = st.mld.clone();
            st.conv_ops += 1;
            v!(l, mode, st, lr);
        }
        45 => {
            let which = rng.below(3);
            note!("f=norm{}(d)", which);
            st.f = match which {
                0 => st.d.to_normalized(),
                1 => *st.d.as_normalized(),
                _ => *AsRef::<FuzzyHash>::as_ref(&st.d),
            };
            st.mf = st.md.normalized();
            st.conv_ops += 1;
            v!(l, mode, st, f);
        }
        46 => {
            let which = rng.below(3);
            note!("lf=norm{}(ld)", which);
            st.lf = match which {
                0 => st.ld.to_normalized(),
                1 => *st.ld.as_normalized(),
                _ => *AsRef::<LongFuzzyHash>::as_ref(&st.ld),
            };
            st.mlf = st.mld.normalized();
            st.conv_ops += 1;
            v!(l, mode, st, lf);
        }
        // ------------------------------------------------ comparison targets
        47..=52 => {
            let which = op - 47;
            note!("t.init_from(slot{})", which);
            let m = match which {
                0 => {
                    st.t.init_from(&st.f);
                    st.mf.clone()
                }
                1 => {
                    st.t.init_from(&st.lf);
                    st.mlf.clone()
                }
                2 => {
                    st.t.init_from(&st.d);
                    st.md.normalized()
                }
                3 => {
                    st.t.init_from(&st.ld);
                    st.mld.normalized()
                }
                4 => {
                    st.t = FuzzyHashCompareTarget::from(&st.f);
                    st.mf.clone()
                }
                _ => {
                    st.t = FuzzyHashCompareTarget::from(&st.ld);
                    st.mld.normalized()
                }
            };
            st.dirty_ops += 1;
            l.eval(1);
            if mode == Mode::Validity {
                let hist = st.log.join("; ");
                l.check(st.t.is_valid(), "target-is_valid", || {
                    (format!("C11|target|invalid|{}", hist), format!("FuzzyHashCompareTarget failed is_valid() after [{}]", hist))
                });
                let fresh = FuzzyHashCompareTarget::from(LongFuzzyHash::new_from_internals_near_raw(m.log, &m.bh1, &m.bh2));
                l.check(st.t.full_eq(&fresh), "target-full_eq", || {
                    (format!("C11|target|full_eq|{}", hist), format!("re-initialized FuzzyHashCompareTarget is not structurally equal to a fresh one for {} after [{}]", m.text(), hist))
                });
            }
        }
        // ------------------------------------------------ round trips through text
        53 => {
            note!("r=parse(text(r))");
            let t = st.r.text();
            st.r = RawFuzzyHash::from_bytes(t.as_bytes()).unwrap();
            v!(l, mode, st, r);
        }
        54 => {
            note!("lf=parse(text(lf))");
            let t = st.lf.text();
            st.lf = LongFuzzyHash::from_bytes(t.as_bytes()).unwrap();
            v!(l, mode, st, lf);
        }
        55 => {
            note!("d=parse(text(d))");
            let t = st.d.text();
            st.d = DualFuzzyHash::from_bytes(t.as_bytes()).unwrap();
            v!(l, mode, st, d);
        }
        56 => {
            note!("ld=parse(text(lr))");
            let t = st.lr.text();
            st.ld = LongDualFuzzyHash::from_bytes(t.as_bytes()).unwrap();
            st.mld = st.mlr.clone();
            v!(l, mode, st, ld);
        }
        // ------------------------------------------------ copies / defaults
        57 => {
            note!("all=Default/new");
            st.f = FuzzyHash::default();
            st.r = RawFuzzyHash::new();
            st.lf = Default::default();
            st.lr = Default::default();
            st.d = DualFuzzyHash::default();
            st.ld = LongDualFuzzyHash::new();
            st.mf = empty();
            st.mr = empty();
            st.mlf = empty();
            st.mlr = empty();
            st.md = empty();
            st.mld = empty();
            v!(l, mode, st, f);
            v!(l, mode, st, d);
        }
        58 => {
            // fill every slot with a full-length value so that later shorter values meet dirty tails
            let m = HV { log: 30, bh1: (0..64).map(|i| (63 - i) as u8).collect(), bh2: (0..64).map(|i| (i * 5 % 64) as u8 | 1).collect() };
            let ms = HV { log: m.log, bh1: m.bh1.clone(), bh2: m.bh2[..32].to_vec() };
            note!("all=full-length values");
            st.lr = LongRawFuzzyHash::new_from_internals_near_raw(m.log, &m.bh1, &m.bh2);
            st.lf = st.lr.normalize();
            st.r = RawFuzzyHash::new_from_internals_near_raw(ms.log, &ms.bh1, &ms.bh2);
            st.f = st.r.normalize();
            st.d = DualFuzzyHash::from_raw_form(&st.r);
            st.ld = LongDualFuzzyHash::from_raw_form(&st.lr);
            st.mlr = m.clone();
            st.mlf = m.normalized();
            st.mld = m;
            st.mr = ms.clone();
            st.mf = ms.normalized();
            st.md = ms;
            v!(l, mode, st, lr);
            v!(l, mode, st, f);
        }
        59 => {
            // long raw with a run that ends exactly at the capacity
            let s = rng.below(64) as u8;
            let runl = rng.urange(4, 64);
            let mut bh2: Vec<u8> = (0..(64 - runl)).map(|i| ((i as u8) + s + 1) % 64).collect();
            if let Some(last) = bh2.last() {
                if *last == s {
                    let n = bh2.len();
                    bh2[n - 1] = (s + 2) % 64;
                }
            }
            bh2.extend(std::iter::repeat(s).take(runl));
            let m = HV { log: hashes::gen_log(rng), bh1: bh2.clone(), bh2 };
            note!("lr=ctor({})", m.text());
            st.lr = LongRawFuzzyHash::new_from_internals(3u32 << m.log, &m.bh1, &m.bh2);
            st.mlr = m;
            v!(l, mode, st, lr);
        }
        // ------------------------------------------------ Clone::clone_from onto live (dirty) objects
        64 => {
            let m = hashes::gen_hv(rng, 32, true);
            note!("f.clone_from({})", m.text());
            let src = FuzzyHash::new_from_internals_near_raw(m.log, &m.bh1, &m.bh2);
            st.f.clone_from(&src);
            st.mf = m;
            st.dirty_ops += 1;
            v!(l, mode, st, f);
        }
        65 => {
            let m = hashes::gen_hv(rng, 32, false);
            note!("r.clone_from({})", m.text());
            let src = RawFuzzyHash::new_from_internals_near_raw(m.log, &m.bh1, &m.bh2);
            st.r.clone_from(&src);
            st.mr = m;
            st.dirty_ops += 1;
            v!(l, mode, st, r);
        }
        66 => {
            let m = hashes::gen_hv(rng, 64, true);
            note!("lf.clone_from({})", m.text());
            let src = LongFuzzyHash::new_from_internals_near_raw(m.log, &m.bh1, &m.bh2);
            st.lf.clone_from(&src);
            st.mlf = m;
            st.dirty_ops += 1;
            v!(l, mode, st, lf);
        }
        67 => {
            let m = hashes::gen_hv(rng, 64, false);
            note!("lr.clone_from({})", m.text());
            let src = LongRawFuzzyHash::new_from_internals_near_raw(m.log, &m.bh1, &m.bh2);
            st.lr.clone_from(&src);
            st.mlr = m;
            st.dirty_ops += 1;
            v!(l, mode, st, lr);
        }
        68 => {
            let m = hashes::gen_hv(rng, 32, false);
            note!("d.clone_from({})", m.text());
            let src = DualFuzzyHash::new_from_internals_near_raw(m.log, &m.bh1, &m.bh2);
            st.d.clone_from(&src);
            st.md = m;
            st.dirty_ops += 1;
            v!(l, mode, st, d);
        }
        69 => {
            let m = hashes::gen_hv(rng, 64, false);
            note!("ld.clone_from({})", m.text());
            let src = LongDualFuzzyHash::new_from_internals_near_raw(m.log, &m.bh1, &m.bh2);
            st.ld.clone_from(&src);
            st.mld = m;
            st.dirty_ops += 1;
            v!(l, mode, st, ld);
        }
        70 | 71 => {
            // comparison target: clone_from onto the live target / clone of a fresh one
            let m = hashes::gen_hv(rng, 64, true);
            note!("t.{}(target of {})", if op == 70 { "clone_from" } else { "=clone" }, m.text());
            let src = FuzzyHashCompareTarget::from(LongFuzzyHash::new_from_internals_near_raw(m.log, &m.bh1, &m.bh2));
            if op == 70 {
                st.t.clone_from(&src);
            } else {
                st.t = src.clone();
            }
            st.dirty_ops += 1;
            l.eval(1);
            let hist = st.log.join("; ");
            l.check(st.t.is_valid(), "target-is_valid", || {
                (format!("C11|target|invalid|{}", hist), format!("FuzzyHashCompareTarget failed is_valid() after [{}]", hist))
            });
            let fresh = FuzzyHashCompareTarget::from(LongFuzzyHash::new_from_internals_near_raw(m.log, &m.bh1, &m.bh2));
            l.check(st.t.full_eq(&fresh), "target-full_eq", || {
                (format!("C11|target|full_eq|{}", hist), format!("copied FuzzyHashCompareTarget is not structurally equal to a fresh one for {} after [{}]", m.text(), hist))
            });
        }
        _ => {
            // all slots re-verified (quiescent point)
            note!("verify-all");
            v!(l, mode, st, f);
            v!(l, mode, st, r);
            v!(l, mode, st, lf);
            v!(l, mode, st, lr);
            v!(l, mode, st, d);
            v!(l, mode, st, ld);
        }
    }
    let _ = normalize;
}

fn narrowing_checks(l: &mut Local, mode: Mode, ty: &str, fits: bool, res: &Result<(), FuzzyHashOperationError>, dest_unchanged: bool, hist: &[String]) {
    if mode != Mode::Content {
        return;
    }
    let h = hist.join("; ");
    match res {
        Ok(()) => {
            l.check(fits, "narrowing", || {
                (format!("C15|{}|narrow-ok|{}", ty, h), format!("narrowing to {} succeeded although block hash 2 is longer than 32 symbols after [{}]", ty, h))
            });
        }
        Err(e) => {
            l.check(!fits && *e == FuzzyHashOperationError::BlockHashOverflow, "narrowing", || {
                (format!("C15|{}|narrow-err|{}", ty, h), format!("narrowing to {} failed with {:?} although block hash 2 fits (or with the wrong error) after [{}]", ty, e, h))
            });
            l.check(dest_unchanged, "narrowing-dest-untouched", || {
                (format!("C15|{}|narrow-dest|{}", ty, h), format!("failed narrowing to {} modified the destination after [{}]", ty, h))
            });
            l.count("narrowing_refused", 1);
        }
    }
}

pub fn sample_history(st: &St) -> J {
    J::A(st.log.iter().take(30).map(|s| J::s(s.clone())).collect())
}

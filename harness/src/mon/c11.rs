//! C11 - no safe operation ever yields an invalid hash object.

use crate::ctx::{finish, guard, run_streams, Local, Opts, Report, Stream};
use crate::json::{hex, J};
use crate::mon::common;
use crate::mon::objops::{self, Mode, St};
use crate::rng::{fnv64, Rng};
use crate::types::HashLike;
use crate::work::hashes;
use ssdeep::internal_comparison::{BlockHashPositionArray, BlockHashPositionArrayData};
use ssdeep::{
    DualFuzzyHash, FuzzyHash, FuzzyHashCompareTarget, LongDualFuzzyHash, LongFuzzyHash,
    LongRawFuzzyHash, RawFuzzyHash,
};

// ---------------------------------------------------------------- W9: out-of-contract arguments

#[derive(Clone, Debug)]
struct Args {
    log: u8,
    bs: u32,
    bh1: Vec<u8>,
    bh2: Vec<u8>,
    /// for the array forms: declared lengths and tail pollution
    len1: u8,
    len2: u8,
    arr1: [u8; 64],
    arr2: [u8; 64],
    what: &'static str,
}

/// valid arguments for (s2, norm), then exactly one precondition is broken
fn bad_args(rng: &mut Rng, s2: usize, norm: bool, array_form: bool) -> Args {
    let m = hashes::gen_hv(rng, s2, norm);
    let mut a = Args {
        log: m.log,
        bs: 3u32 << m.log,
        bh1: m.bh1.clone(),
        bh2: m.bh2.clone(),
        len1: 0,
        len2: 0,
        arr1: [0; 64],
        arr2: [0; 64],
        what: "",
    };
    let nkinds = 4 + if norm { 1 } else { 0 } + if array_form { 2 } else { 0 };
    let mut k = rng.below(nkinds);
    if !norm && k >= 4 {
        k += 1;
    }
    match k {
        0 => {
            a.what = "invalid block size";
            a.log = 31 + rng.below(225) as u8;
            a.bs = loop {
                let v = rng.next() as u32;
                if !(v % 3 == 0 && (v / 3).is_power_of_two()) {
                    break v;
                }
            };
            if rng.chance(1, 4) {
                a.bs = [0u32, 1, 2, 4, 5, 7, 9, 3 * 5, u32::MAX][rng.usize_below(9)];
            }
        }
        1 => {
            a.what = "block hash 1 too long";
            if array_form {
                a.len1 = 65 + rng.below(190) as u8;
            }
            let n = overlong_len(rng, 64, 16);
            a.bh1 = overlong(rng, n);
        }
        2 => {
            a.what = "block hash 2 too long";
            if array_form {
                a.len2 = (s2 + 1 + rng.usize_below(255 - s2)) as u8;
            }
            // up to twice the capacity: for the short types this stays within block hash 1's capacity
            let n = overlong_len(rng, s2, s2.max(16));
            a.bh2 = overlong(rng, n);
        }
        3 => {
            a.what = "symbol >= 64";
            let bad = 64 + rng.below(192) as u8;
            let first = rng.chance(1, 2);
            let v = if first { &mut a.bh1 } else { &mut a.bh2 };
            if v.is_empty() {
                v.push(bad);
            } else {
                let p = rng.usize_below(v.len());
                v[p] = bad;
            }
        }
        4 => {
            a.what = "not normalized";
            let first = rng.chance(1, 2);
            let cap = if first { 64 } else { s2 };
            let v = if first { &mut a.bh1 } else { &mut a.bh2 };
            let s = rng.below(64) as u8;
            let l = rng.urange(4, 9);
            let pos = if v.is_empty() { 0 } else { rng.usize_below(v.len()) };
            for _ in 0..l {
                v.insert(pos, s);
            }
            v.truncate(cap);
            if crate::oracle::model::is_normalized(v) {
                // truncation destroyed the run: put it at the front
                for i in 0..4.min(v.len()) {
                    v[i] = s;
                }
                if v.len() < 4 {
                    *v = vec![s; 4];
                }
            }
        }
        5 => {
            a.what = "non-zero tail after the declared length";
            // handled below (array form only)
        }
        _ => {
            a.what = "declared length beyond the capacity";
            if rng.chance(1, 2) {
                a.len1 = 65 + rng.below(190) as u8;
            } else {
                a.len2 = (s2 + 1 + rng.usize_below(255 - s2)) as u8;
            }
        }
    }
    if array_form {
        let n1 = a.bh1.len().min(64);
        let n2 = a.bh2.len().min(s2);
        a.arr1[..n1].copy_from_slice(&a.bh1[..n1]);
        a.arr2[..n2].copy_from_slice(&a.bh2[..n2]);
        if a.len1 == 0 {
            a.len1 = n1 as u8;
        }
        if a.len2 == 0 {
            a.len2 = n2 as u8;
        }
        if k == 5 {
            // shorten a declared length or pollute the tail
            if rng.chance(1, 2) && n1 < 64 {
                let p = rng.urange(n1, 63);
                a.arr1[p] = 1 + rng.below(63) as u8;
            } else if n2 < s2 {
                let p = rng.urange(n2, s2 - 1);
                a.arr2[p] = 1 + rng.below(63) as u8;
            } else if n1 > 0 && a.arr1[n1 - 1] != 0 {
                a.len1 = (n1 - 1) as u8;
            } else if n2 > 0 && a.arr2[n2 - 1] != 0 {
                a.len2 = (n2 - 1) as u8;
            } else {
                a.arr1[63] = 5;
                a.len1 = a.len1.min(63);
            }
        }
    }
    a
}

/// an over-long block hash: either all distinct neighbours, or (half of the time) with a long run so that
/// its run-collapse would fit into the capacity (the shape a length check against the wrong bound lets through)
/// a length beyond the capacity: mostly just above it; one time in three a length whose low 8 or 16
/// bits look like a legal length (256*j + r, 65536*j + r with r <= capacity), which is what a guard
/// evaluated after a narrowing conversion lets through
fn overlong_len(rng: &mut Rng, cap: usize, spread: usize) -> usize {
    match rng.below(6) {
        0 => 256 * rng.urange(1, 4) + rng.urange(0, cap),
        1 => 65536 * rng.urange(1, 2) + rng.urange(0, cap),
        _ => cap + 1 + rng.usize_below(spread),
    }
}

fn overlong(rng: &mut Rng, n: usize) -> Vec<u8> {
    if rng.chance(1, 2) {
        (0..n).map(|i| ((i * 11 + 3) % 64) as u8).collect()
    } else {
        let pre = rng.urange(0, 6.min(n.saturating_sub(4)));
        let post = rng.urange(0, 3.min(n - pre - 4));
        let s = rng.below(64) as u8;
        let mut v: Vec<u8> = (0..pre).map(|i| (s + 1 + i as u8) % 64).collect();
        v.extend(std::iter::repeat(s).take(n - pre - post));
        v.extend((0..post).map(|i| (s + 9 + i as u8) % 64));
        v
    }
}

fn args_sig(a: &Args, array_form: bool) -> String {
    if array_form {
        format!("log={},len1={},len2={},a1={},a2={}", a.log, a.len1, a.len2, hex(&a.arr1), hex(&a.arr2))
    } else {
        format!("log={},bs={},bh1={},bh2={}", a.log, a.bs, hex(&a.bh1), hex(&a.bh2))
    }
}

/// outcome of an out-of-contract call: must panic or return a valid object
fn w9_outcome<T: HashLike>(l: &mut Local, api: &str, a: &Args, array_form: bool, r: Result<T, String>) {
    l.eval(1);
    match r {
        Err(_) => l.count("w9_panicked_as_documented", 1),
        Ok(h) => {
            let valid = guard(|| h.valid()).unwrap_or(false);
            l.check(valid, "w9-corrupted-object", || {
                (
                    format!("C11|W9|{}|{}|{}|{}", T::NAME, api, a.what, args_sig(a, array_form)),
                    format!("{}::{} with out-of-contract arguments ({}: {}) returned a corrupted object instead of panicking: {:?}", T::NAME, api, a.what, args_sig(a, array_form), h),
                )
            });
            if valid {
                l.count("w9_returned_valid_object", 1);
            }
        }
    }
}

macro_rules! w9_plain {
    ($l:expr, $rng:expr, $T:ty, $s2:expr, $norm:expr) => {{
        let api = $rng.below(4);
        let array_form = api >= 2;
        let a = bad_args($rng, $s2, $norm, array_form);
        let arr2: [u8; $s2] = {
            let mut x = [0u8; $s2];
            x.copy_from_slice(&a.arr2[..$s2]);
            x
        };
        match api {
            0 => w9_outcome::<$T>($l, "new_from_internals", &a, false, guard(|| <$T>::new_from_internals(a.bs, &a.bh1, &a.bh2))),
            1 => w9_outcome::<$T>($l, "new_from_internals_near_raw", &a, false, guard(|| <$T>::new_from_internals_near_raw(a.log, &a.bh1, &a.bh2))),
            2 => w9_outcome::<$T>($l, "new_from_internals_raw", &a, true, guard(|| <$T>::new_from_internals_raw(a.log, &a.arr1, &arr2, a.len1, a.len2))),
            _ => {
                // dirty destination; after a panic the destination must still be a valid object
                let m = hashes::gen_hv($rng, $s2, $norm);
                let mut dest = <$T as HashLike>::build(&m);
                let r = guard(|| dest.init_from_internals_raw(a.log, &a.arr1, &arr2, a.len1, a.len2));
                w9_outcome::<$T>($l, "init_from_internals_raw", &a, true, Ok(dest));
                if r.is_err() {
                    $l.count("w9_panicked_as_documented", 1);
                }
            }
        }
    }};
}
macro_rules! w9_dual {
    ($l:expr, $rng:expr, $T:ty, $s2:expr) => {{
        let api = $rng.below(2);
        // dual constructors take any raw content: "not normalized" is in contract there
        let a = bad_args($rng, $s2, false, false);
        match api {
            0 => w9_outcome::<$T>($l, "new_from_internals", &a, false, guard(|| <$T>::new_from_internals(a.bs, &a.bh1, &a.bh2))),
            _ => w9_outcome::<$T>($l, "new_from_internals_near_raw", &a, false, guard(|| <$T>::new_from_internals_near_raw(a.log, &a.bh1, &a.bh2))),
        }
    }};
}

fn w9_case(rng: &mut Rng, l: &mut Local) {
    match rng.below(7) {
        0 => w9_plain!(l, rng, FuzzyHash, 32, true),
        1 => w9_plain!(l, rng, RawFuzzyHash, 32, false),
        2 => w9_plain!(l, rng, LongFuzzyHash, 64, true),
        3 => w9_plain!(l, rng, LongRawFuzzyHash, 64, false),
        4 => w9_dual!(l, rng, DualFuzzyHash, 32),
        5 => w9_dual!(l, rng, LongDualFuzzyHash, 64),
        _ => {
            // BlockHashPositionArray::init_from on a dirty array
            let mut pa = BlockHashPositionArray::new();
            pa.init_from(&hashes::gen_bh(rng, 64));
            let bad: Vec<u8> = if rng.chance(1, 2) {
                (0..overlong_len(rng, 64, 30)).map(|i| (i % 64) as u8).collect()
            } else {
                let mut v = hashes::gen_bh(rng, 64);
                if v.is_empty() {
                    v.push(0);
                }
                let p = rng.usize_below(v.len());
                v[p] = 64 + rng.below(192) as u8;
                v
            };
            let r = guard(|| pa.init_from(&bad));
            l.eval(1);
            if r.is_err() {
                l.count("w9_panicked_as_documented", 1);
            }
            let valid = guard(|| pa.is_valid()).unwrap_or(false);
            l.check(valid, "w9-corrupted-object", || {
                (format!("C11|W9|BlockHashPositionArray|init_from|{}", hex(&bad)), format!("BlockHashPositionArray::init_from with out-of-contract input {} left/returned an invalid array", hex(&bad)))
            });
        }
    }
}

// ---------------------------------------------------------------- garbage objects

/// Any bit pattern is a value of these types (only u8/u64 fields), so this is sound.
fn garbage_of<T>(rng: &mut Rng, template: Option<&T>) -> T {
    let n = std::mem::size_of::<T>();
    let mut bytes = vec![0u8; n];
    match template {
        Some(t) if rng.chance(2, 3) => {
            // near-valid: a valid object with a few bytes changed
            unsafe { std::ptr::copy_nonoverlapping(t as *const T as *const u8, bytes.as_mut_ptr(), n) };
            let k = rng.urange(1, 4);
            for _ in 0..k {
                let p = rng.usize_below(n);
                bytes[p] = match rng.below(4) {
                    0 => rng.byte(),
                    1 => 0xff,
                    2 => bytes[p].wrapping_add(1),
                    _ => 64 + (rng.byte() & 3),
                };
            }
        }
        _ => {
            rng.fill(&mut bytes);
            if rng.chance(1, 2) {
                for b in bytes.iter_mut() {
                    *b &= 0x3f;
                }
            }
        }
    }
    unsafe { std::ptr::read_unaligned(bytes.as_ptr() as *const T) }
}

struct GarbagePA {
    rep: [u64; 64],
    len: u8,
}
impl BlockHashPositionArrayData for GarbagePA {
    fn representation(&self) -> &[u64; 64] {
        &self.rep
    }
    fn len(&self) -> u8 {
        self.len
    }
}

macro_rules! garbage_hash {
    ($l:expr, $rng:expr, $T:ty, $s2:expr, $norm:expr, $has_full_eq:expr) => {{
        let m = hashes::gen_hv($rng, $s2, $norm);
        let tmpl = <$T as HashLike>::build(&m);
        let g: $T = garbage_of($rng, Some(&tmpl));
        let g2: $T = garbage_of($rng, Some(&tmpl));
        $l.eval(1);
        let r = guard(|| {
            let v = g.is_valid();
            let s = format!("{:?}", g);
            (v, s.len())
        });
        match r {
            Ok((v, _)) => {
                $l.hist("garbage_is_valid", format!("{}:{}", <$T as HashLike>::NAME, v));
            }
            Err(p) => {
                let raw = unsafe { std::slice::from_raw_parts(&g as *const $T as *const u8, std::mem::size_of::<$T>()) }.to_vec();
                $l.violation("never-panics", format!("C11|garbage|{}|{}", <$T as HashLike>::NAME, hex(&raw)), format!("is_valid()/Debug of a {} with arbitrary content panicked: {} (object bytes {})", <$T as HashLike>::NAME, p, hex(&raw)));
            }
        }
        let _ = &g2;
    }};
}

fn garbage_case(rng: &mut Rng, l: &mut Local) {
    match rng.below(9) {
        0 => {
            garbage_hash!(l, rng, FuzzyHash, 32, true, true);
            let a: FuzzyHash = garbage_of(rng, None);
            let b: FuzzyHash = garbage_of(rng, Some(&a));
            if let Err(p) = guard(|| a.full_eq(&b)) {
                l.violation("never-panics", "C11|garbage|FuzzyHash|full_eq".into(), format!("full_eq on arbitrary content panicked: {}", p));
            }
        }
        1 => {
            garbage_hash!(l, rng, RawFuzzyHash, 32, false, true);
            let a: RawFuzzyHash = garbage_of(rng, None);
            let b: RawFuzzyHash = garbage_of(rng, Some(&a));
            if let Err(p) = guard(|| a.full_eq(&b)) {
                l.violation("never-panics", "C11|garbage|RawFuzzyHash|full_eq".into(), format!("full_eq on arbitrary content panicked: {}", p));
            }
        }
        2 => {
            garbage_hash!(l, rng, LongFuzzyHash, 64, true, true);
            let a: LongFuzzyHash = garbage_of(rng, None);
            let b: LongFuzzyHash = garbage_of(rng, Some(&a));
            if let Err(p) = guard(|| a.full_eq(&b)) {
                l.violation("never-panics", "C11|garbage|LongFuzzyHash|full_eq".into(), format!("full_eq on arbitrary content panicked: {}", p));
            }
        }
        3 => {
            garbage_hash!(l, rng, LongRawFuzzyHash, 64, false, true);
            let a: LongRawFuzzyHash = garbage_of(rng, None);
            let b: LongRawFuzzyHash = garbage_of(rng, Some(&a));
            if let Err(p) = guard(|| a.full_eq(&b)) {
                l.violation("never-panics", "C11|garbage|LongRawFuzzyHash|full_eq".into(), format!("full_eq on arbitrary content panicked: {}", p));
            }
        }
        4 => garbage_hash!(l, rng, DualFuzzyHash, 32, false, false),
        5 => garbage_hash!(l, rng, LongDualFuzzyHash, 64, false, false),
        6 => {
            let m = hashes::gen_hv(rng, 64, true);
            let tmpl = FuzzyHashCompareTarget::from(LongFuzzyHash::build(&m));
            let g: FuzzyHashCompareTarget = garbage_of(rng, Some(&tmpl));
            let g2: FuzzyHashCompareTarget = garbage_of(rng, Some(&tmpl));
            l.eval(1);
            let r = guard(|| {
                let v = g.is_valid();
                let e = g.full_eq(&g2);
                let s = format!("{:?}", g);
                (v, e, s.len())
            });
            match r {
                Ok((v, _, _)) => l.hist("garbage_is_valid", format!("FuzzyHashCompareTarget:{}", v)),
                Err(p) => l.violation("never-panics", format!("C11|garbage|FuzzyHashCompareTarget|{}", p), format!("is_valid()/full_eq()/Debug of a FuzzyHashCompareTarget with arbitrary content panicked: {}", p)),
            }
        }
        7 => {
            let mut t = BlockHashPositionArray::new();
            t.init_from(&hashes::gen_bh(rng, 64));
            let g: BlockHashPositionArray = garbage_of(rng, Some(&t));
            l.eval(1);
            let r = guard(|| {
                let v = g.is_valid();
                let n = g.is_valid_and_normalized();
                let s = format!("{:?}", g);
                (v, n, g.is_empty(), s.len())
            });
            match r {
                Ok((v, _, _, _)) => l.hist("garbage_is_valid", format!("BlockHashPositionArray:{}", v)),
                Err(p) => l.violation("never-panics", format!("C11|garbage|BlockHashPositionArray|{}", p), format!("validity checks of a BlockHashPositionArray with arbitrary content panicked: {}", p)),
            }
        }
        _ => {
            // provided trait methods on an arbitrary implementor of the public data trait
            let mut g = GarbagePA { rep: [0; 64], len: rng.byte() };
            match rng.below(3) {
                0 => {
                    for x in g.rep.iter_mut() {
                        *x = rng.next();
                    }
                }
                1 => {
                    // disjoint positions, arbitrary length
                    for i in 0..64 {
                        let s = rng.usize_below(64);
                        if rng.chance(3, 4) {
                            g.rep[s] |= 1u64 << i;
                        }
                    }
                }
                _ => {
                    let p = rng.usize_below(64);
                    g.rep[p] = u64::MAX;
                    g.len = [0u8, 1, 63, 64, 65, 255][rng.usize_below(6)];
                }
            }
            l.eval(1);
            let r = guard(|| (g.is_valid(), g.is_valid_and_normalized(), g.is_empty()));
            match r {
                Ok((v, _, _)) => l.hist("garbage_is_valid", format!("BlockHashPositionArrayData-impl:{}", v)),
                Err(p) => l.violation("never-panics", format!("C11|garbage|BlockHashPositionArrayData|len={}|{}", g.len, p), format!("provided is_valid*() of BlockHashPositionArrayData panicked on arbitrary content (len={}): {}", g.len, p)),
            }
        }
    }
}

pub fn run(o: &Opts) -> i32 {
    let mut pre = Vec::new();
    let words = match common::words_or_inconclusive() {
        Ok(w) => w,
        Err(e) => {
            pre.push(e);
            vec![vec![[0u8; 7]]; 33]
        }
    };
    let wref = &words;
    let mut streams: Vec<Stream> = Vec::new();
    // every operation of the engine once, in order, twice over (one case): clamped interpreter runs
    // then execute each conversion / constructor / parser path at least once on dirty destinations
    streams.push(Stream::new("all-operations-in-order", 1, move |_i, rng: &mut Rng, l: &mut Local| {
        let mut st = St::new();
        for round in 0..2 {
            for op in 0..objops::N_OPS {
                let op = if round == 0 { op } else { objops::N_OPS - 1 - op };
                objops::step_op(l, Mode::Validity, &mut st, rng, wref, op);
                st.log.clear(); // keep witness signatures short; the order is fixed
            }
        }
    }));
    streams.push(Stream::new("histories", o.n(50_000, 3_000_000), move |_i, rng: &mut Rng, l: &mut Local| {
        let mut st = St::new();
        let n = rng.urange(3, 30);
        for _ in 0..n {
            objops::step(l, Mode::Validity, &mut st, rng, wref);
        }
        if st.dirty_ops > 0 {
            l.nt(fnv64(st.log.join(";").as_bytes()));
        }
        l.histn("history_len", n as u64);
        l.sample(|| J::obj().set("history", objops::sample_history(&st)));
    }));
    // the bit trick behind is_valid_and_normalized(): has_sequences(x, n) <=> x has n consecutive one bits
    streams.push(Stream::new("has_sequences-definition", o.n(4_000, 200_000), |i, rng: &mut Rng, l: &mut Local| {
        use ssdeep::internal_comparison::block_hash_position_array_element::{has_sequences, has_sequences_const};
        // words made of runs of ones of chosen lengths, so that every threshold is met exactly / missed by one
        let mut x: u64 = 0;
        let mut pos = 0u32;
        match i % 4 {
            0 => x = rng.next(),
            1 => x = rng.next() & rng.next() | (rng.next() & rng.next() & rng.next()),
            _ => {
                while pos < 64 {
                    let run = if rng.chance(1, 6) { rng.urange(1, 64) as u32 } else { rng.urange(1, 9) as u32 };
                    let run = run.min(64 - pos);
                    if run == 64 {
                        x = u64::MAX;
                    } else {
                        x |= ((1u64 << run) - 1) << pos;
                    }
                    pos += run + 1 + rng.below(3) as u32;
                }
            }
        }
        if i == 0 {
            x = u64::MAX;
        } else if i == 1 {
            x = 0;
        } else if i == 2 {
            x = u64::MAX >> 1;
        } else if i == 3 {
            x = u64::MAX << 1;
        }
        // longest run of ones, naively
        let (mut best, mut cur) = (0u32, 0u32);
        for b in 0..64 {
            if (x >> b) & 1 == 1 {
                cur += 1;
                best = best.max(cur);
            } else {
                cur = 0;
            }
        }
        for n in 0..=70u32 {
            l.eval(1);
            let got = has_sequences(x, n);
            l.check(got == (n <= best), "has_sequences", || {
                (format!("C11|has_sequences|{:016x}|{}", x, n), format!("has_sequences({:#018x}, {}) = {} but the longest run of one bits is {}", x, n, got, best))
            });
        }
        macro_rules! konst {
            ($($n:expr),*) => {$(
                l.eval(1);
                let got = has_sequences_const::<$n>(x);
                l.check(got == ($n <= best), "has_sequences_const", || {
                    (format!("C11|has_sequences_const|{:016x}|{}", x, $n), format!("has_sequences_const::<{}>({:#018x}) = {} but the longest run of one bits is {}", $n, x, got, best))
                });
            )*};
        }
        konst!(0, 1, 2, 3, 4, 5, 6, 7, 8, 9, 15, 16, 17, 31, 32, 33, 47, 48, 63, 64, 65);
        l.nt(x);
    }));
    // parsing is a safe operation too: whatever a parser returns as Ok must be a valid object
    streams.push(Stream::new("parse-hostile-texts", o.n(60_000, 4_000_000), |i, rng: &mut Rng, l: &mut Local| {
        let t = if i % 8 == 0 {
            // raw-overlong runs around both capacities, in either block hash
            let n = *rng.pick(&[32usize, 33, 34, 35, 36, 37, 40, 63, 64, 65, 66, 67, 68, 69, 80, 130]);
            let run = "A".repeat(n);
            match rng.below(4) {
                0 => format!("3:abc:{}", run),
                1 => format!("3:{}:abc", run),
                2 => format!("96:xy{}z:{}", run, &run[..n.min(20)]),
                _ => format!("6:{}:q{}", &run[..n.min(30)], run),
            }
            .into_bytes()
        } else {
            hashes::gen_text(rng)
        };
        crate::for_six_types!(T => {
            let mut apis: Vec<(&str, Result<Option<T>, String>)> = Vec::new();
            apis.push(("from_bytes", guard(|| <T as HashLike>::parse_bytes(&t).ok())));
            apis.push(("from_bytes_with_last_index", guard(|| { let mut idx = 0usize; <T as HashLike>::parse_idx(&t, &mut idx).ok() })));
            if let Ok(s) = std::str::from_utf8(&t) {
                apis.push(("from_str", guard(|| <T as HashLike>::parse_str(s).ok())));
            }
            for (api, r) in apis {
                l.eval(1);
                match r {
                    Ok(Some(h)) => {
                        let valid = guard(|| h.valid()).unwrap_or(false);
                        l.check(valid, "is_valid", || (format!("C11|parse|{}|{}|{}", <T as HashLike>::NAME, api, hex(&t)), format!("{}::{} of {:?} returned an object failing is_valid(): {:?}", <T as HashLike>::NAME, api, crate::json::esc(&t), h)));
                        l.count("parsed_objects_checked", 1);
                    }
                    Ok(None) => {}
                    Err(p) => l.violation("totality", format!("C11|parse-panic|{}|{}|{}", <T as HashLike>::NAME, api, hex(&t)), format!("{}::{} of {:?} panicked: {}", <T as HashLike>::NAME, api, crate::json::esc(&t), p)),
                }
            }
        });
    }));
    streams.push(Stream::new("w9-out-of-contract", o.n(200_000, 10_000_000), |_i, rng: &mut Rng, l: &mut Local| {
        let before = l.evals;
        w9_case(rng, l);
        let _ = before;
        l.nt(rng.next()); // every W9 call is distinct by construction (random arguments)
    }));
    streams.push(Stream::new("garbage-objects", o.n(200_000, 10_000_000), |_i, rng: &mut Rng, l: &mut Local| {
        garbage_case(rng, l);
    }));
    let mut rr = run_streams(o, streams);
    rr.local.inconclusive.extend(pre);
    finish(
        o,
        rr,
        Report {
            rule: "histories: 3..30 random safe operations (parse, checked constructors, generator, normalize, every conversion into fresh and dirty destinations, dual compress/expand, target init_from) over one live object per type; after every operation the destination must pass is_valid() and full_eq must agree with == against an independently built equal value. w9: every checked constructor with exactly one documented precondition broken must panic or return a valid object. parse-hostile-texts: every object any parser entry point returns for W5 texts and raw-overlong runs must pass is_valid(). garbage: is_valid/full_eq/Debug on arbitrary bit patterns must not panic. Non-trivial = history with >= 1 dirty-destination operation, or a W9 call; distinct by operation list.".into(),
            assumptions: vec!["the harness builds arbitrary-content objects by bit copy; all fields of these types are plain integers, so every bit pattern is a value".into()],
            exhaustive: false,
            min_nontrivial: 1000 * o.scale_pct / 100,
            extra: vec![],
        },
    )
}

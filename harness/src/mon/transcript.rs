//! C14 (a)/(c): canonical transcript of library results over a fixed corpus, using only
//! the core API that exists in every feature configuration, plus in-process checks that
//! the *_unchecked entry points agree with their checked twins inside their contracts.

use crate::ctx::{guard, Opts};
use crate::for_six_types;
use crate::json::hex;
use crate::mon::genhist::{feed, observe};
use crate::oracle::model::{self, HV};
use crate::rng::Rng;
use crate::types::HashLike;
use crate::util::text_of;
use crate::work::{bytes, hashes};
use ssdeep::internal_comparison::{BlockHashPositionArray, BlockHashPositionArrayImpl};
use ssdeep::{FuzzyHash, FuzzyHashCompareTarget, Generator, LongFuzzyHash, LongRawFuzzyHash, ParseErrorInfo, RawFuzzyHash};
use std::fmt::Write;

fn parse_line<T: HashLike>(out: &mut String, i: u64, t: &[u8]) {
    let tagged = model::raw_exceeds_capacity(t, T::S2);
    let mut idx = usize::MAX;
    let r = guard(|| T::parse_idx(t, &mut idx));
    let _ = write!(out, "P{} {} {} {} => ", if tagged { "!" } else { "" }, i, T::NAME, hex(t));
    match r {
        Ok(Ok(h)) => {
            let st = guard(|| h.stored());
            let _ = writeln!(out, "Ok {} end={} valid={}", st.map(|s| s.text()).unwrap_or_else(|p| format!("<panic {}>", p)), idx, h.valid());
        }
        Ok(Err(e)) => {
            let _ = writeln!(out, "Err({:?},{:?},{})", e.kind(), e.origin(), e.offset());
        }
        Err(p) => {
            let _ = writeln!(out, "PANIC {}", p.split(" @ ").next().unwrap_or(""));
        }
    }
}

pub fn run(o: &Opts) -> i32 {
    let words = match crate::work::words::words() {
        Ok(w) => w,
        Err(e) => {
            println!("INCONCLUSIVE {}", e);
            return 2;
        }
    };
    let mut out = String::with_capacity(8 << 20);
    let quick = !o.is_thorough();
    let (n_g, n_p, n_c, n_s) = if quick { (300u64, 4000u64, 2500u64, 4000u64) } else { (3000, 60_000, 30_000, 60_000) };
    let n_g = (n_g * o.scale_pct / 100).max(2);
    let n_p = (n_p * o.scale_pct / 100).max(5);
    let n_c = (n_c * o.scale_pct / 100).max(5);
    let n_s = (n_s * o.scale_pct / 100).max(5);
    let mut mismatches: Vec<String> = Vec::new();
    // ---- generator
    for i in 0..n_g {
        let mut rng = Rng::for_case(o.seed, "transcript/G", i);
        let data = if i % 2 == 0 { bytes::gen_w1(&mut rng, 20_000) } else { bytes::gen_w2(&mut rng, &words, 4096).0 };
        for form in 0..3u64 {
            let r = guard(|| {
                let mut g = Generator::new();
                let cut = data.len() / 3;
                feed(&mut g, form, &data[..cut]);
                feed(&mut g, form, &data[cut..]);
                observe(&g)
            });
            match r {
                Ok(ob) => {
                    let _ = writeln!(out, "G {} form{} size={} {} | {} | {} | {}", i, form, ob.size, ob.f, ob.fwt, ob.short_nt, ob.long_t);
                }
                Err(p) => {
                    let _ = writeln!(out, "G {} form{} PANIC {}", i, form, p.split(" @ ").next().unwrap_or(""));
                }
            }
        }
        // hint + reset on the same object
        let r = guard(|| {
            let mut g = Generator::new();
            let _ = g.set_fixed_input_size(data.len() as u64);
            g.update(&data);
            let a = observe(&g);
            g.reset();
            g.update(&data[..data.len() / 2]);
            (a, observe(&g))
        });
        if let Ok((a, b)) = r {
            let _ = writeln!(out, "H {} {} | {} || {} | {}", i, a.f, a.fwt, b.f, b.fwt);
        } else {
            let _ = writeln!(out, "H {} PANIC", i);
        }
    }
    // ---- parser
    for i in 0..n_p {
        let mut rng = Rng::for_case(o.seed, "transcript/P", i);
        let t = hashes::gen_text(&mut rng);
        for_six_types!(T => { parse_line::<T>(&mut out, i, &t); });
    }
    // ---- conversions
    for i in 0..n_c {
        let mut rng = Rng::for_case(o.seed, "transcript/C", i);
        let m = hashes::gen_hv(&mut rng, 64, false);
        let r = guard(|| {
            let lr = LongRawFuzzyHash::build(&m);
            let lf = lr.normalize();
            let mut s = RawFuzzyHash::new();
            let narrow = lr.try_into_mut_short(&mut s);
            let f = s.normalize();
            let ld = ssdeep::LongDualFuzzyHash::from_raw_form(&lr);
            let back = ld.to_raw_form();
            let widened = f.to_long_form();
            format!(
                "{} | {} | {:?} {} | {} | {} {} | {} | n={} v={}",
                text_of(&lr),
                text_of(&lf),
                narrow,
                text_of(&s),
                text_of(&f),
                text_of(&back),
                text_of(ld.as_normalized()),
                text_of(&widened),
                lr.is_normalized(),
                ld.is_valid()
            )
        });
        let _ = writeln!(out, "C {} {}", i, r.unwrap_or_else(|p| format!("PANIC {}", p.split(" @ ").next().unwrap_or(""))));
    }
    // ---- scores
    for i in 0..n_s {
        let mut rng = Rng::for_case(o.seed, "transcript/S", i);
        let a = hashes::gen_hv(&mut rng, 32, true);
        let b = hashes::derive(&mut rng, &a, 32).normalized();
        let r = guard(|| {
            let (fa, fb) = (FuzzyHash::build(&a), FuzzyHash::build(&b));
            let (la, lb) = (LongFuzzyHash::build(&a), LongFuzzyHash::build(&b));
            let t = FuzzyHashCompareTarget::from(&fa);
            let mut pa = BlockHashPositionArray::new();
            pa.init_from(&a.bh1);
            let iw: u64 = fa.block_hash_1_index_windows().chain(fa.block_hash_2_index_windows()).fold(0u64, |x, y| x.wrapping_mul(31).wrapping_add(y));
            let line = format!(
                "{} {} => {} {} {} cand={} ed={} cs={} raw={} ss={} iw={:x}",
                a.text(),
                b.text(),
                fa.compare(&fb),
                la.compare(&lb),
                t.compare(&lb),
                t.is_comparison_candidate(&fb),
                pa.edit_distance(&b.bh1),
                pa.has_common_substring(&b.bh1),
                if model::is_normalized(&a.bh1) { pa.score_strings_raw(&b.bh1) } else { 0 },
                pa.score_strings(&b.bh1, a.log),
                iw
            );
            line
        });
        let _ = writeln!(out, "S {} {}", i, r.unwrap_or_else(|p| format!("PANIC {}", p.split(" @ ").next().unwrap_or(""))));
        #[cfg(feature = "ffunchecked")]
        unchecked_twins(&a, &b, &mut mismatches);
    }
    let _ = (&mismatches, HV::new(0, &[], &[]));
    // output
    let path = o.out.clone();
    match path {
        Some(p) => {
            if std::fs::write(&p, &out).is_err() {
                return 3;
            }
        }
        None => print!("{}", out),
    }
    if !mismatches.is_empty() {
        for m in mismatches.iter().take(10) {
            println!("UNCHECKED-MISMATCH {}", m);
        }
        return 1;
    }
    0
}

/// (c) the *_unchecked entry points against their checked twins inside the documented contracts
#[cfg(feature = "ffunchecked")]
fn unchecked_twins(a: &HV, b: &HV, bad: &mut Vec<String>) {
    use ssdeep::internal_comparison::BlockHashPositionArrayImplUnchecked;
    let r = guard(|| {
        let mut v: Vec<String> = Vec::new();
        let (fa, fb) = (FuzzyHash::build(a), FuzzyHash::build(b));
        let t = FuzzyHashCompareTarget::from(&fa);
        let mut pa = BlockHashPositionArray::new();
        pa.init_from(&a.bh1);
        unsafe {
            if pa.is_equiv_unchecked(&b.bh1) != pa.is_equiv(&b.bh1) {
                v.push(format!("is_equiv_unchecked {} {}", a.text(), b.text()));
            }
            if pa.has_common_substring_unchecked(&b.bh1) != pa.has_common_substring(&b.bh1) {
                v.push(format!("has_common_substring_unchecked {} {}", a.text(), b.text()));
            }
            if pa.edit_distance_unchecked(&b.bh1) != pa.edit_distance(&b.bh1) {
                v.push(format!("edit_distance_unchecked {} {}", a.text(), b.text()));
            }
            if pa.score_strings_raw_unchecked(&b.bh1) != pa.score_strings_raw(&b.bh1) {
                v.push(format!("score_strings_raw_unchecked {} {}", a.text(), b.text()));
            }
            if pa.score_strings_unchecked(&b.bh1, a.log) != pa.score_strings(&b.bh1, a.log) {
                v.push(format!("score_strings_unchecked {} {}", a.text(), b.text()));
            }
            // the documented contract allows every effective block size 0..=31 (31 = block hash 2 of the largest size)
            for lg in [0u8, 3, 4, 25, 26, 27, 28, 29, 30, 31] {
                if pa.score_strings_unchecked(&b.bh1, lg) != pa.score_strings(&b.bh1, lg) {
                    v.push(format!("score_strings_unchecked(log_block_size={}) {} {}", lg, a.text(), b.text()));
                }
            }
            // constructors
            let c1 = FuzzyHash::new_from_internals_unchecked(3u32 << a.log, &a.bh1, &a.bh2);
            let c2 = FuzzyHash::new_from_internals_near_raw_unchecked(a.log, &a.bh1, &a.bh2);
            let mut a1 = [0u8; 64];
            let mut a2 = [0u8; 32];
            a1[..a.bh1.len()].copy_from_slice(&a.bh1);
            a2[..a.bh2.len()].copy_from_slice(&a.bh2);
            let c3 = FuzzyHash::new_from_internals_raw_unchecked(a.log, &a1, &a2, a.bh1.len() as u8, a.bh2.len() as u8);
            let mut c4 = fb;
            c4.init_from_internals_raw_unchecked(a.log, &a1, &a2, a.bh1.len() as u8, a.bh2.len() as u8);
            if !(c1.full_eq(&fa) && c2.full_eq(&fa) && c3.full_eq(&fa) && c4.full_eq(&fa)) {
                v.push(format!("unchecked constructors {}", a.text()));
            }
            let d1 = ssdeep::DualFuzzyHash::new_from_internals_unchecked(3u32 << a.log, &a.bh1, &a.bh2);
            let d2 = ssdeep::DualFuzzyHash::new_from_internals_near_raw_unchecked(a.log, &a.bh1, &a.bh2);
            let d0 = ssdeep::DualFuzzyHash::new_from_internals(3u32 << a.log, &a.bh1, &a.bh2);
            if d1 != d0 || d2 != d0 {
                v.push(format!("unchecked dual constructors {}", a.text()));
            }
            // candidate tests with relation preconditions
            let rel = a.log as i32 - b.log as i32;
            if rel == 0 && t.is_comparison_candidate_near_eq_unchecked(&fb) != t.is_comparison_candidate(&fb) {
                v.push(format!("candidate_near_eq_unchecked {} {}", a.text(), b.text()));
            }
            if rel == -1 && t.is_comparison_candidate_near_lt_unchecked(&fb) != t.is_comparison_candidate(&fb) {
                v.push(format!("candidate_near_lt_unchecked {} {}", a.text(), b.text()));
            }
            if rel == 1 && t.is_comparison_candidate_near_gt_unchecked(&fb) != t.is_comparison_candidate(&fb) {
                v.push(format!("candidate_near_gt_unchecked {} {}", a.text(), b.text()));
            }
            if rel == 0 && (t.is_comparison_candidate_near_eq(&fb) != t.is_comparison_candidate(&fb)) {
                v.push(format!("candidate_near_eq {} {}", a.text(), b.text()));
            }
        }
        v
    });
    match r {
        Ok(v) => bad.extend(v),
        Err(p) => bad.push(format!("panic in unchecked twin comparison {} {}: {}", a.text(), b.text(), p)),
    }
}

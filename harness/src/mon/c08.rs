//! C08 - block-hash edit distance is the exact insert/delete (LCS) distance (oracle O6).
//! C09 - the common-substring pre-filter is exact (oracle O7).

use crate::ctx::{finish, guard, run_streams, Local, Opts, Report, Stream};
use crate::json::{hex, J};
use crate::oracle::model;
use crate::rng::{fnv64, Rng};
use crate::types::HashLike;
use crate::work::hashes;
use ssdeep::internal_comparison::{BlockHashPositionArray, BlockHashPositionArrayImpl};
use ssdeep::{FuzzyHashCompareTarget, LongFuzzyHash};

/// k-th string over an alphabet of size `a` in length-then-lexicographic order
pub fn nth_string(mut k: u64, a: u64, syms: &[u8]) -> Vec<u8> {
    let mut len = 0usize;
    let mut block = 1u64;
    while k >= block {
        k -= block;
        block *= a;
        len += 1;
    }
    let mut v = vec![0u8; len];
    for i in (0..len).rev() {
        v[i] = syms[(k % a) as usize];
        k /= a;
    }
    v
}
pub fn count_strings(a: u64, min_len: u32, max_len: u32) -> u64 {
    (min_len..=max_len).map(|l| a.pow(l)).sum()
}
/// index of the first string of length `len`
pub fn first_of_len(a: u64, len: u32) -> u64 {
    (0..len).map(|l| a.pow(l)).sum()
}

/// In about one case out of eight the (still empty) array first sees an out-of-contract input that is
/// refused with a panic; a refused call must leave nothing behind for the array built afterwards.
fn refused_init_sometimes(pa: &mut BlockHashPositionArray, a: &[u8], b: &[u8]) {
    if (fnv64(a) ^ fnv64(b)) % 8 == 0 {
        let mut bad: Vec<u8> = b.iter().chain(a.iter()).copied().take(40).collect();
        bad.push(64 + (a.len() as u8 % 100));
        bad.extend_from_slice(&[1, 2, 3]);
        let _ = guard(|| pa.init_from(&bad));
    }
}

fn pair_fp(a: &[u8], b: &[u8]) -> u64 {
    fnv64(a) ^ fnv64(b).rotate_left(21) ^ ((a.len() as u64) << 56)
}

// ------------------------------------------------------------------ C08

pub fn check_distance(l: &mut Local, a: &[u8], b: &[u8]) {
    let want = model::lcs_dist(a, b);
    let sig = |w: &str| format!("C08|{}|{}|{}", w, hex(a), hex(b));
    let r = guard(|| {
        let mut pa = BlockHashPositionArray::new();
        refused_init_sometimes(&mut pa, a, b);
        pa.init_from(a);
        let d_ab = pa.edit_distance(b);
        pa.init_from(b);
        let d_ba = pa.edit_distance(a);
        (d_ab, d_ba)
    });
    l.eval(2);
    match r {
        Ok((d_ab, d_ba)) => {
            l.check(d_ab == want, "edit_distance", || {
                (sig("array"), format!("edit_distance({}, {}) = {} but |a|+|b|-2*LCS = {}", hex(a), hex(b), d_ab, want))
            });
            l.check(d_ba == want, "edit_distance-swapped", || {
                (sig("array-swapped"), format!("edit_distance({}, {}) = {} but |a|+|b|-2*LCS = {}", hex(b), hex(a), d_ba, want))
            });
        }
        Err(p) => l.violation("totality", sig("panic"), format!("edit_distance panicked on {} / {}: {}", hex(a), hex(b), p)),
    }
    // through the comparison target accessors (they hold normalized block hashes)
    if model::is_normalized(a) && model::is_normalized(b) && b.len() <= 64 {
        let r = guard(|| {
            let h = LongFuzzyHash::new_from_internals_near_raw(0, a, b);
            let t = FuzzyHashCompareTarget::from(&h);
            let d1 = t.block_hash_1().edit_distance(b);
            let d2 = t.block_hash_2().edit_distance(a);
            (d1, d2)
        });
        l.eval(2);
        match r {
            Ok((d1, d2)) => {
                l.check(d1 == want && d2 == want, "edit_distance-target", || {
                    (sig("target"), format!("target accessors give {} / {} but the LCS distance of {} and {} is {}", d1, d2, hex(a), hex(b), want))
                });
            }
            Err(p) => l.violation("totality", sig("target-panic"), format!("target edit_distance panicked: {}", p)),
        }
    }
    let lcs = (a.len() + b.len()) as u32 - want;
    let lcs = lcs / 2;
    if lcs > 0 && (lcs as usize) < a.len().min(b.len()) {
        l.nt(pair_fp(a, b));
    }
    l.histn("lcs_len", lcs as u64);
}

fn structured_pair(rng: &mut Rng) -> (Vec<u8>, Vec<u8>) {
    match rng.below(8) {
        0 => {
            // all-same symbol at lengths 63/64 (carry chain)
            let s = rng.below(64) as u8;
            let la = *rng.pick(&[62usize, 63, 64]);
            let lb = *rng.pick(&[1usize, 32, 62, 63, 64]);
            (vec![s; la], vec![s; lb])
        }
        1 => {
            // shifted copy
            let a = hashes::gen_bh(rng, 64);
            let mut b = a.clone();
            if !b.is_empty() {
                let k = rng.usize_below(b.len());
                b.rotate_left(k);
            }
            (a, b)
        }
        2 => {
            // one edit
            let a = hashes::gen_bh(rng, 64);
            let mut b = a.clone();
            if !b.is_empty() {
                let p = rng.usize_below(b.len());
                match rng.below(3) {
                    0 => {
                        b.remove(p);
                    }
                    1 => b[p] = (b[p] + 1) % 64,
                    _ => {
                        if b.len() < 64 {
                            b.insert(p, rng.below(64) as u8);
                        }
                    }
                }
            }
            (a, b)
        }
        3 => {
            // long runs over two symbols
            let (s, t) = (rng.below(64) as u8, rng.below(64) as u8);
            let mk = |rng: &mut Rng| {
                let mut v = Vec::new();
                while v.len() < 64 && rng.chance(9, 10) {
                    let c = if rng.chance(1, 2) { s } else { t };
                    let n = rng.urange(1, 20).min(64 - v.len());
                    v.extend(std::iter::repeat(c).take(n));
                }
                v
            };
            (mk(rng), mk(rng))
        }
        4 => {
            // full length, reversed
            let a: Vec<u8> = (0..64).map(|_| rng.below(64) as u8).collect();
            let mut b = a.clone();
            b.reverse();
            (a, b)
        }
        5 => {
            // interleavings: subsequence relation
            let a = hashes::gen_bh(rng, 64);
            let b: Vec<u8> = a.iter().copied().filter(|_| rng.chance(1, 2)).collect();
            (a, b)
        }
        6 => (hashes::gen_bh(rng, 64), hashes::gen_bh(rng, 64)),
        _ => {
            // small alphabet, long
            let al = rng.range(2, 5);
            let la = rng.urange(0, 64);
            let lb = rng.urange(0, 64);
            ((0..la).map(|_| rng.below(al) as u8).collect(), (0..lb).map(|_| rng.below(al) as u8).collect())
        }
    }
}

pub fn run_c08(o: &Opts) -> i32 {
    let mut streams: Vec<Stream> = Vec::new();
    let n2 = count_strings(2, 0, 8);
    streams.push(
        Stream::new("exhaustive-alphabet2-len0..8", n2, move |i, rng: &mut Rng, l: &mut Local| {
            let s0 = rng.below(64) as u8;
            let s1 = (s0 + 1 + rng.below(63) as u8) % 64;
            let syms = [s0, s1];
            let a = nth_string(i, 2, &syms);
            for j in 0..n2 {
                let b = nth_string(j, 2, &syms);
                check_distance(l, &a, &b);
            }
            l.sample(|| J::obj().set("a", J::s(hex(&a))).set("against", J::s("all 511 strings over the same two symbols")));
        })
        .grain(1),
    );
    let n3 = count_strings(3, 0, 5);
    streams.push(
        Stream::new("exhaustive-alphabet3-len0..5", n3, move |i, rng: &mut Rng, l: &mut Local| {
            let s0 = rng.below(62) as u8;
            let syms = [s0, s0 + 1, s0 + 2];
            let a = nth_string(i, 3, &syms);
            for j in 0..n3 {
                let b = nth_string(j, 3, &syms);
                check_distance(l, &a, &b);
            }
        })
        .grain(1),
    );
    if o.is_thorough() {
        let n = count_strings(2, 0, 11);
        streams.push(
            Stream::new("exhaustive-alphabet2-len0..11", n, move |i, _rng: &mut Rng, l: &mut Local| {
                let syms = [(i % 63) as u8, 63];
                let a = nth_string(i, 2, &syms);
                for j in 0..n {
                    let b = nth_string(j, 2, &syms);
                    check_distance(l, &a, &b);
                }
            })
            .grain(1),
        );
    }
    streams.push(Stream::new("structured-and-random", o.n(200_000, 20_000_000), |_i, rng: &mut Rng, l: &mut Local| {
        let (a, b) = structured_pair(rng);
        check_distance(l, &a, &b);
        l.sample(|| J::obj().set("a", J::s(hex(&a))).set("b", J::s(hex(&b))).set("lcs_distance", J::U(model::lcs_dist(&a, &b) as u64)));
    }));
    let rr = run_streams(o, streams);
    finish(
        o,
        rr,
        Report {
            rule: "pairs: ALL pairs of strings over a 2-symbol alphabet of length 0..8 (511^2) and over a 3-symbol alphabet of length 0..5 (364^2) [thorough: 2 symbols up to length 11, 4095^2], plus structured pairs up to length 64 (all-same symbol at 62/63/64, shifted copies, single edits, long runs, reversal, subsequences) and random pairs. Each pair: BlockHashPositionArray::edit_distance in both argument orders and, for normalized strings, through FuzzyHashCompareTarget::block_hash_1()/2(), against the textbook DP LCS distance O6. evaluations = monitored edit_distance calls. Non-trivial = 0 < LCS < min(|a|,|b|); distinct by pair. The small-alphabet sub-spaces are enumerated completely (exhaustive flag refers to them); the 64-symbol space is sampled.".into(),
            assumptions: vec![],
            exhaustive: false,
            min_nontrivial: 10_000 * o.scale_pct / 100,
            extra: vec![("exhaustive_subspaces".into(), J::s("alphabet 2 length 0..8; alphabet 3 length 0..5"))],
        },
    )
}

// ------------------------------------------------------------------ C09

pub fn check_common(l: &mut Local, a: &[u8], b: &[u8], tag: &str) {
    let want = model::common7(a, b);
    let sig = |w: &str| format!("C09|{}|{}|{}", w, hex(a), hex(b));
    let r = guard(|| {
        let mut pa = BlockHashPositionArray::new();
        refused_init_sometimes(&mut pa, a, b);
        pa.init_from(a);
        let ab = pa.has_common_substring(b);
        pa.init_from(b);
        let ba = pa.has_common_substring(a);
        (ab, ba)
    });
    l.eval(2);
    match r {
        Ok((ab, ba)) => {
            l.check(ab == want, "has_common_substring", || {
                (sig("array"), format!("has_common_substring(a={}, b={}) = {} but a shared 7-gram {} ({})", hex(a), hex(b), ab, if want { "exists" } else { "does not exist" }, tag))
            });
            l.check(ba == want, "has_common_substring-swapped", || {
                (sig("array-swapped"), format!("has_common_substring(a={}, b={}) = {} but a shared 7-gram {} ({})", hex(b), hex(a), ba, if want { "exists" } else { "does not exist" }, tag))
            });
        }
        Err(p) => l.violation("totality", sig("panic"), format!("has_common_substring panicked: {}", p)),
    }
    if model::is_normalized(a) && model::is_normalized(b) {
        // target accessors + is_comparison_candidate (block hash 1 pair at equal block size,
        // block hash 2 empty => candidate iff bh1 strings share a 7-gram)
        let r = guard(|| {
            let ha = LongFuzzyHash::new_from_internals_near_raw(5, a, &[]);
            let hb = LongFuzzyHash::new_from_internals_near_raw(5, b, &[]);
            let hb2 = LongFuzzyHash::new_from_internals_near_raw(6, &[], b); // hb2.bh2 has the effective size of ha... no: eff(hb2.bh2)=7
            let hb_lt = LongFuzzyHash::new_from_internals_near_raw(4, &[], b); // eff(bh2) = 5 = eff(ha.bh1)
            let t = FuzzyHashCompareTarget::from(&ha);
            let _ = hb2;
            let x = t.block_hash_1().has_common_substring(b);
            let c_eq = t.is_comparison_candidate(&hb);
            let c_gt = t.is_comparison_candidate(&hb_lt);
            let t_lt = FuzzyHashCompareTarget::from(&hb_lt);
            let c_lt = t_lt.is_comparison_candidate(&ha);
            // the relation-specific entry points, inside their preconditions
            let d_eq = t.is_comparison_candidate_near_eq(&hb);
            let d_gt = t.is_comparison_candidate_near_gt(&hb_lt);
            let d_lt = t_lt.is_comparison_candidate_near_lt(&ha);
            #[cfg(feature = "ffunchecked")]
            let du = unsafe { (t.is_comparison_candidate_near_eq_unchecked(&hb), t.is_comparison_candidate_near_gt_unchecked(&hb_lt), t_lt.is_comparison_candidate_near_lt_unchecked(&ha)) };
            #[cfg(not(feature = "ffunchecked"))]
            let du = (d_eq, d_gt, d_lt);
            (x, c_eq, c_gt, c_lt, (d_eq, d_gt, d_lt), du)
        });
        l.eval(10);
        match r {
            Ok((x, c_eq, c_gt, c_lt, d, du)) => {
                l.check(x == want && c_eq == want && c_gt == want && c_lt == want, "is_comparison_candidate", || {
                    (sig("target"), format!("target answers (accessor {}, near-eq {}, near-gt {}, near-lt {}) but a shared 7-gram of {} and {} {}", x, c_eq, c_gt, c_lt, hex(a), hex(b), if want { "exists" } else { "does not exist" }))
                });
                l.check(d == (want, want, want) && du == (want, want, want), "is_comparison_candidate_near_*", || {
                    (sig("target-near"), format!("relation-specific candidate tests answer (near_eq, near_gt, near_lt) = {:?}, unchecked twins {:?}, but a shared 7-gram of {} and {} {}", d, du, hex(a), hex(b), if want { "exists" } else { "does not exist" }))
                });
            }
            Err(p) => l.violation("totality", sig("target-panic"), format!("target candidate test panicked: {}", p)),
        }
    }
    if a.len() >= 7 && b.len() >= 7 {
        l.nt(pair_fp(a, b));
        l.hist("answer", if want { "common" } else { "none" });
    }
}

const PLANT_LENS: [usize; 8] = [7, 8, 13, 14, 15, 32, 63, 64];

pub fn run_c09(o: &Opts) -> i32 {
    // planted 7-gram at every (offset in a, offset in b) for the listed length pairs
    let mut plan: Vec<(usize, usize, usize, usize)> = Vec::new();
    for &la in &PLANT_LENS {
        for &lb in &PLANT_LENS {
            for oa in 0..=(la - 7) {
                for ob in 0..=(lb - 7) {
                    plan.push((la, lb, oa, ob));
                }
            }
        }
    }
    let plan_ref = &plan;
    let mut streams: Vec<Stream> = Vec::new();
    streams.push(Stream::new("planted-7gram-every-offset-pair", plan.len() as u64, move |i, rng: &mut Rng, l: &mut Local| {
        let (la, lb, oa, ob) = plan_ref[i as usize];
        // disjoint alphabets: a from 0..20, b from 21..41, gram from 42..63; no 4-runs needed
        let mut a: Vec<u8> = (0..la).map(|k| ((k * 7 + rng.usize_below(3)) % 21) as u8).collect();
        let mut b: Vec<u8> = (0..lb).map(|k| (21 + (k * 5 + rng.usize_below(3)) % 21) as u8).collect();
        let gram: Vec<u8> = (0..7).map(|k| (42 + (k * 3 + rng.usize_below(2)) % 22) as u8).collect();
        a[oa..oa + 7].copy_from_slice(&gram);
        b[ob..ob + 7].copy_from_slice(&gram);
        check_common(l, &a, &b, "planted");
        l.count("planted_offset_pairs", 1);
        // near miss: break one symbol of the gram in b
        // (every position: a 6-symbol match that breaks only at its last symbol at the very end of
        // a string is where a scan that looks one symbol too far would leave the slice)
        for kk in 0..7 {
            let mut b3 = b.clone();
            b3[ob + kk] = 21 + (b3[ob + kk] % 21);
            check_common(l, &a, &b3, "near-miss-6");
            let mut a3 = a.clone();
            a3[oa + kk] = a3[oa + kk] % 21;
            check_common(l, &a3, &b, "near-miss-6");
        }
        let mut b2 = b.clone();
        let k = rng.usize_below(7);
        b2[ob + k] = 21 + (b2[ob + k] % 21);
        // second occurrence somewhere else (overlapping allowed)
        if la >= 14 {
            let mut a2 = a.clone();
            let o2 = rng.usize_below(la - 6);
            a2[o2..o2 + 7].copy_from_slice(&gram);
            check_common(l, &a2, &b2, "repeated");
            check_common(l, &a2, &b, "repeated");
        }
        l.sample(|| J::obj().set("a", J::s(hex(&a))).set("b", J::s(hex(&b))).set("offsets", J::s(format!("{},{}", oa, ob))));
    }));
    // exhaustive alphabet 2, lengths 7..10 (quick: 7..9)
    let maxl = if o.is_thorough() { 10 } else { 9 };
    let first = first_of_len(2, 7);
    let n = count_strings(2, 7, maxl);
    streams.push(
        Stream::new("exhaustive-alphabet2-len7..", n, move |i, _rng: &mut Rng, l: &mut Local| {
            let syms = [(i % 61) as u8, 63];
            let a = nth_string(first + i, 2, &syms);
            for j in 0..n {
                let b = nth_string(first + j, 2, &syms);
                check_common(l, &a, &b, "exhaustive");
            }
        })
        .grain(1),
    );
    streams.push(Stream::new("random", o.n(400_000, 30_000_000), |_i, rng: &mut Rng, l: &mut Local| {
        let al = *rng.pick(&[2u64, 3, 4, 64]);
        let (a, b) = if al == 64 {
            let a = hashes::gen_bh_norm(rng, 64);
            let b = if rng.chance(1, 2) { hashes::derive(rng, &model::HV::new(0, &a, &[]), 64).bh1 } else { hashes::gen_bh_norm(rng, 64) };
            (a, b)
        } else {
            let la = rng.urange(5, 64);
            let lb = rng.urange(5, 64);
            ((0..la).map(|_| rng.below(al) as u8).collect::<Vec<u8>>(), (0..lb).map(|_| rng.below(al) as u8).collect::<Vec<u8>>())
        };
        check_common(l, &a, &b, "random");
    }));
    let rr = run_streams(o, streams);
    finish(
        o,
        rr,
        Report {
            rule: format!("pairs: a shared 7-gram planted at EVERY (offset in a, offset in b) for all length pairs from {{7,8,13,14,15,32,63,64}} over otherwise disjoint alphabets ({} offset pairs), the same with one symbol broken (6-gram near miss) and with repeated/overlapping occurrences; ALL pairs of 2-symbol strings of length 7..{}; random pairs over alphabets 2,3,4,64. Each pair: has_common_substring in both orders, the target accessor and is_comparison_candidate (near-eq, near-lt, near-gt) for normalized strings, against the naive test O7. Non-trivial = both strings >= 7 long; distinct by pair.", plan.len(), maxl),
            assumptions: vec![],
            exhaustive: false,
            min_nontrivial: 10_000 * o.scale_pct / 100,
            extra: vec![("planted_plan_size".into(), J::U(plan.len() as u64))],
        },
    )
}

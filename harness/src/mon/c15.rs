//! C15 - conversions between hash variants commute and lose nothing (abstract model O8).

use crate::ctx::{finish, run_streams, Local, Opts, Report, Stream};
use crate::json::J;
use crate::mon::common;
use crate::mon::objops::{self, Mode, St};
use crate::rng::{fnv64, Rng};

pub fn run(o: &Opts) -> i32 {
    let mut pre = Vec::new();
    let words = match common::words_or_inconclusive() {
        Ok(w) => w,
        Err(e) => {
            pre.push(e);
            vec![vec![[0u8; 7]]; 33]
        }
    };
    let wref = &words;
    let mut streams: Vec<Stream> = Vec::new();
    // every operation of the engine once, in order, twice over (one case): clamped interpreter runs
    // then execute each conversion / constructor / parser path at least once on dirty destinations
    streams.push(Stream::new("all-operations-in-order", 1, move |_i, rng: &mut Rng, l: &mut Local| {
        let mut st = St::new();
        for round in 0..2 {
            for op in 0..objops::N_OPS {
                let op = if round == 0 { op } else { objops::N_OPS - 1 - op };
                objops::step_op(l, Mode::Content, &mut st, rng, wref, op);
                st.log.clear(); // keep witness signatures short; the order is fixed
            }
        }
    }));
    streams.push(Stream::new("conversion-chains", o.n(100_000, 6_000_000), move |_i, rng: &mut Rng, l: &mut Local| {
        let mut st = St::new();
        let n = rng.urange(3, 16);
        for _ in 0..n {
            objops::step(l, Mode::Content, &mut st, rng, wref);
        }
        if st.conv_ops >= 3 && st.dirty_ops >= 1 {
            l.nt(fnv64(st.log.join(";").as_bytes()));
        }
        l.histn("conversions_in_chain", st.conv_ops as u64);
        l.sample(|| J::obj().set("chain", objops::sample_history(&st)));
    }));
    let mut rr = run_streams(o, streams);
    rr.local.inconclusive.extend(pre);
    finish(
        o,
        rr,
        Report {
            rule: "random walks of 3..16 operations over the conversion graph (to_/into_mut_/try_into_mut_/From/TryFrom/from_* between short/long, raw/normalized and dual variants, normalization, dual compress/expand, text round trips), one live object per type so that into_mut_* destinations are dirty; after every step the destination's symbols, text and structure (full_eq against a freshly built equal value) must equal the abstract model O8's result for the chain; narrowing must fail exactly when block hash 2 is longer than 32 symbols, with BlockHashOverflow, leaving the destination untouched. evaluations = verified conversion results. Non-trivial = chain with >= 3 conversions and >= 1 dirty destination; distinct by operation list.".into(),
            assumptions: vec![],
            exhaustive: false,
            min_nontrivial: 5000 * o.scale_pct / 100,
            extra: vec![],
        },
    )
}

//! `ubscan` - a compact, systematic scan for the undefined-behaviour detectors used by C14.
//!
//! The other monitors draw thousands of random cases; an interpreter that is four orders of
//! magnitude slower than native code only ever sees their first few.  This module drives the
//! *same* per-case monitors (so every result is still compared with its oracle) over a small,
//! deliberately shaped plan: block hashes of boundary lengths (0, 1, 6, 7, 8, capacity-1, capacity),
//! runs ending exactly at the end of a string, completely filled RLE blocks, the extreme symbols,
//! every combination of hash *forms* on the two sides of a comparison, strings that differ only in
//! their first / last symbol, and generator inputs whose pieces end at chosen block sizes as often
//! as a block hash can hold (and once more).  It is sharded (`--shard i/n`) so that a dozen
//! interpreter processes share the plan, and it is also run natively under AddressSanitizer and in
//! the debug-assertion build (where core's unsafe-precondition checks abort on a false
//! `assert_unchecked`, an out-of-range `get_unchecked` ...).

use crate::ctx::{finish, run_streams, Local, Opts, Report, Stream};
use crate::json::J;
use crate::mon::{c01, c02, c03, c04, c05, c06, c08, c12, c16, c17, common, objops};
use crate::oracle::model::HV;
use crate::rng::Rng;
use crate::types::HashLike;
use crate::work::bytes::Words;

pub const N_SHAPES: usize = 22;

/// block hash symbols of a boundary shape, at most `cap` long; `salt` varies the symbols
pub fn shape(id: usize, cap: usize, salt: u8) -> Vec<u8> {
    let s = |k: usize| -> u8 { ((k * 7 + salt as usize * 3 + 1) % 64) as u8 };
    let distinct = |n: usize| -> Vec<u8> { (0..n).map(|k| s(k)).collect() };
    let mut v = match id {
        0 => vec![],
        1 => vec![s(0)],
        2 => vec![s(1); 3],
        3 => vec![s(2); 4],
        4 => distinct(6),
        5 => distinct(7),
        6 => distinct(8),
        7 => distinct(cap - 1),
        8 => distinct(cap),
        9 => vec![s(3); cap],
        10 => (0..cap).map(|k| s(k / 4)).collect(), // AAAABBBB...: every RLE slot used
        11 => (0..cap - 1).map(|k| s(k / 4)).collect(),
        12 => {
            let mut v = distinct(cap - 4);
            let c = (v[v.len() - 1] + 1) % 64;
            v.extend([c; 4]);
            v
        }
        13 => {
            let mut v = distinct(cap - 5);
            let c = (v[v.len() - 1] + 1) % 64;
            v.extend([c; 5]);
            v
        }
        14 => {
            let mut v = distinct(cap - 7);
            let c = (v[v.len() - 1] + 1) % 64;
            v.extend([c; 7]);
            v
        }
        15 => {
            let mut v = vec![s(40); 4];
            v.extend(distinct(cap - 4).iter().map(|x| (x + 1) % 64));
            v
        }
        16 => distinct(cap / 2 + 1),
        17 => (0..cap).map(|k| if (k / 3) % 2 == 0 { 0 } else { 63 }).collect(),
        18 => {
            let mut v = distinct(10);
            v.extend([s(50); 6]);
            v.extend(distinct(10).iter().map(|x| (x + 2) % 64));
            v
        }
        19 => distinct(cap / 2),
        20 => distinct(cap / 2 - 1),
        _ => {
            // runs of 3 (normalized, as long as possible)
            (0..cap).map(|k| s(k / 3)).collect()
        }
    };
    v.truncate(cap);
    v
}

fn hv(log: u8, i: usize, j: usize, s2: usize, salt: u8) -> HV {
    HV { log, bh1: shape(i, 64, salt), bh2: shape(j, s2, salt.wrapping_add(9)) }
}

const LOGS: [u8; 6] = [0, 1, 3, 17, 29, 30];

pub fn run(o: &Opts) -> i32 {
    let mut pre_inconclusive = Vec::new();
    let words: Words = match common::words_or_inconclusive() {
        Ok(w) => w,
        Err(e) => {
            pre_inconclusive.push(e);
            vec![vec![[0u8; 7]]; 33]
        }
    };
    // shape pairs: the diagonal and one permutation
    let mut pairs: Vec<(usize, usize)> = Vec::new();
    for i in 0..N_SHAPES {
        if o.is_thorough() {
            for j in 0..N_SHAPES {
                pairs.push((i, j));
            }
        } else {
            pairs.push((i, i));
            pairs.push((i, (i * 7 + 3) % N_SHAPES));
        }
    }
    let pairs_ref = &pairs;
    let mut streams: Vec<Stream> = Vec::new();

    // (1) texts of shaped values through every parser (C04's monitor: six types, three entry points)
    streams.push(Stream::new("shaped-texts", pairs.len() as u64 * 2, move |i, _rng: &mut Rng, l: &mut Local| {
        let (a, b) = pairs_ref[(i / 2) as usize];
        let s2 = if i % 2 == 0 { 64 } else { 32 };
        let v = hv(LOGS[(i as usize) % LOGS.len()], a, b, s2, i as u8);
        let t = v.text();
        c04::check_text(l, t.as_bytes());
        // the same with a trailing file name part and with a block hash one symbol beyond the capacity
        let mut t2 = t.clone().into_bytes();
        t2.extend_from_slice(b",\"name\"");
        c04::check_text(l, &t2);
        let over = HV { log: v.log, bh1: v.bh1.clone(), bh2: { let mut x = shape(b, 64, i as u8); x.push(5); x } };
        c04::check_text(l, over.text().as_bytes());
        l.nt(0x1000 + i);
    }));

    // (2) normalization and the dual forms (C06 / C07 monitors) on shaped raw values
    streams.push(Stream::new("shaped-duals", pairs.len() as u64, move |i, rng: &mut Rng, l: &mut Local| {
        let (a, b) = pairs_ref[i as usize];
        let v = hv(LOGS[(i as usize + 1) % LOGS.len()], a, b, 64, i as u8 ^ 0x55);
        c06::check_c06(l, &v, rng);
        c06::check_c07(l, &v, rng);
        l.nt(0x2000 + i);
    }));

    // (2b) the formatter contract (C05's monitor: store_into_bytes into exactly sized heap buffers of
    // every length, Display, to_string, String::from, len_in_str, parse back)
    streams.push(Stream::new("shaped-format", pairs.len() as u64, move |i, _rng: &mut Rng, l: &mut Local| {
        let (a, b) = pairs_ref[i as usize];
        let v = hv([30u8, 0, 17, 29, 7, 1][(i as usize) % 6], a, b, 64, i as u8 ^ 0x33);
        c05::check_value(l, &v);
        l.nt(0x2800 + i);
    }));

    // (3) comparison through every entry point and every combination of forms (C02's monitor)
    let rels: [(u8, u8); 6] = [(5, 5), (5, 6), (6, 5), (0, 0), (29, 30), (3, 9)];
    streams.push(Stream::new("shaped-pairs", pairs.len() as u64 * rels.len() as u64, move |i, rng: &mut Rng, l: &mut Local| {
        let (a, b) = pairs_ref[(i as usize) / rels.len()];
        let (la, lb) = rels[(i as usize) % rels.len()];
        let s2 = if (i / 3) % 2 == 0 { 64 } else { 32 };
        let x = hv(la, a, b, s2, 1);
        // the second value: same shapes with the same symbols (scores > 0), the sides swapped for
        // the crossing relations, and one variant that differs only in its last symbol
        let mut y = match i % 3 {
            0 => hv(lb, a, b, s2, 1),
            1 => hv(lb, b, a, s2, 1),
            _ => hv(lb, a, a, s2, 1),
        };
        y.bh2.truncate(s2);
        if i % 4 == 1 {
            if let Some(c) = y.bh1.last_mut() {
                *c = (*c + 31) % 64;
            }
        }
        if la + 1 == lb {
            y.bh1 = x.bh2.clone();
        } else if la == lb + 1 {
            y.bh2 = x.bh1.clone();
            y.bh2.truncate(s2);
        }
        c02::check_pair(l, &x, &y, s2, rng);
        c02::check_pair(l, &y, &x, s2, rng);
        l.nt(0x3000 + i);
    }));

    // (3b) mixed forms: one side only fits the long type (normalized block hash 2 of 33..64 symbols),
    // the other is stored in the short type; same and neighbouring block sizes, both orders
    let long_ids: Vec<usize> = if o.is_thorough() { vec![7, 8, 12, 13, 14, 15, 16, 17, 21] } else { vec![16, 8, 17, 12] };
    let short_ids: Vec<usize> = if o.is_thorough() { vec![0, 1, 2, 4, 5, 6, 18, 19, 20] } else { vec![0, 5, 19, 20, 2] };
    let n_mixed = (long_ids.len() * short_ids.len() * 3) as u64;
    streams.push(Stream::new("mixed-forms", n_mixed, move |i, rng: &mut Rng, l: &mut Local| {
        let li = long_ids[(i as usize / 3) / short_ids.len()];
        let si = short_ids[(i as usize / 3) % short_ids.len()];
        let (la, lb) = [(7u8, 7u8), (7, 8), (8, 7)][(i % 3) as usize];
        let x = HV { log: la, bh1: shape(si, 64, 2), bh2: shape(li, 64, 2) };
        let y = HV { log: lb, bh1: shape(si, 64, 2), bh2: shape(si, 32, 2) };
        c02::check_pair(l, &x, &y, 64, rng);
        c02::check_pair(l, &y, &x, 64, rng);
        // identical contents on both sides where they fit
        let z = HV { log: la, bh1: shape(li, 64, 2), bh2: shape(si, 32, 2) };
        c02::check_pair(l, &z, &y, 64, rng);
        l.nt(0x3800 + i);
    }));

    // (3c) constructors fed from exactly sized heap slices (one byte beyond is outside the allocation)
    streams.push(Stream::new("shaped-constructors", pairs.len() as u64, move |i, _rng: &mut Rng, l: &mut Local| {
        let (a, b) = pairs_ref[i as usize];
        let log = LOGS[(i as usize + 2) % LOGS.len()];
        macro_rules! ctor {
            ($T:ty, $s2:expr, $norm:expr) => {{
                let mut v = hv(log, a, b, $s2, i as u8 ^ 0x21);
                if $norm {
                    v = v.normalized();
                }
                let (b1, b2): (Box<[u8]>, Box<[u8]>) = (v.bh1.clone().into(), v.bh2.clone().into());
                let r = crate::ctx::guard(|| {
                    let h1 = <$T>::new_from_internals_near_raw(v.log, &b1, &b2);
                    let h2 = <$T>::new_from_internals(3u32 << v.log, &b1, &b2);
                    (h1.stored(), h1.text(), h1 == h2, format!("{:?}", h2).len())
                });
                l.eval(1);
                match r {
                    Ok((st, tx, eq, _)) => {
                        l.check(st == v && tx == v.text() && eq, "constructor-content", || {
                            (format!("ubscan|ctor|{}|{}", <$T as HashLike>::NAME, v.text()), format!("{} built from {} holds {} / renders {} (two constructors equal: {})", <$T as HashLike>::NAME, v.text(), st.text(), tx, eq))
                        });
                    }
                    Err(p) => l.violation("totality", format!("ubscan|ctor|{}|{}", <$T as HashLike>::NAME, v.text()), format!("{} constructor panicked on in-contract content {}: {}", <$T as HashLike>::NAME, v.text(), p)),
                }
            }};
        }
        ctor!(ssdeep::FuzzyHash, 32, true);
        ctor!(ssdeep::RawFuzzyHash, 32, false);
        ctor!(ssdeep::LongFuzzyHash, 64, true);
        ctor!(ssdeep::LongRawFuzzyHash, 64, false);
        ctor!(ssdeep::DualFuzzyHash, 32, false);
        ctor!(ssdeep::LongDualFuzzyHash, 64, false);
        l.nt(0x3c00 + i);
    }));

    // (4) position arrays: boundary lengths, strings related by their ends
    let lens: [usize; 10] = [0, 1, 6, 7, 8, 31, 32, 33, 63, 64];
    streams.push(Stream::new("shaped-arrays", (lens.len() * lens.len()) as u64, move |i, _rng: &mut Rng, l: &mut Local| {
        let la = lens[(i as usize) / lens.len()];
        let lb = lens[(i as usize) % lens.len()];
        let a: Vec<u8> = (0..la).map(|k| ((k * 5 + 2) % 64) as u8).collect();
        // b: the tail of a (so the strings end alike), then variants broken at either end
        let mut b: Vec<u8> = (0..lb).map(|k| if la >= lb { a[la - lb + k] } else { ((k * 5 + 2) % 64) as u8 }).collect();
        let run = |l: &mut Local, a: &[u8], b: &[u8]| {
            // exactly sized heap copies: one byte beyond either string is outside its allocation
            let (a, b): (Box<[u8]>, Box<[u8]>) = (a.into(), b.into());
            c08::check_distance(l, &a, &b);
            c08::check_common(l, &a, &b, "ubscan");
            c08::check_common(l, &b, &a, "ubscan");
        };
        run(l, &a, &b);
        if lb > 0 {
            b[lb - 1] = (b[lb - 1] + 17) % 64;
            run(l, &a, &b);
            b[0] = (b[0] + 23) % 64;
            run(l, &a, &b);
        }
        if lb >= 8 {
            // six of the last seven agree
            let mut c: Vec<u8> = (0..lb).map(|k| ((k * 11 + 40) % 64) as u8).collect();
            if la >= 7 {
                for k in 0..6 {
                    c[lb - 7 + k] = a[la - 7 + k];
                }
            }
            run(l, &a, &c);
        }
        l.nt(0x4000 + i);
    }));

    // (5) live objects: every operation of the C11/C15 engine, eight per case, both modes
    let wref = &words;
    streams.push(Stream::new("objects", 32, move |i, rng: &mut Rng, l: &mut Local| {
        let mode = if i % 2 == 0 { objops::Mode::Validity } else { objops::Mode::Content };
        let mut st = objops::St::new();
        // seed all six slots, then a window of the operation list
        for op in [0u64, 1, 2, 3, 4, 5] {
            objops::step_op(l, mode, &mut st, rng, wref, op);
        }
        let first = 6 + (i / 2) * 4;
        for k in 0..8 {
            objops::step_op(l, mode, &mut st, rng, wref, 6 + (first - 6 + k) % (objops::N_OPS - 6));
        }
        l.nt(0x5000 + i);
    }));

    // (5b) reused comparison targets / position arrays (C17's monitors) and equality / hashing /
    // ordering over pools of closely related values of each type (C16's monitor)
    streams.push(Stream::new("reuse-and-ordering", 24, move |i, rng: &mut Rng, l: &mut Local| {
        match i % 4 {
            0 => c17::check_target_seq(l, rng),
            1 => c17::check_array_seq(l, rng),
            2 => {
                c16::check_type::<ssdeep::FuzzyHash>(l, rng);
                c16::check_type::<ssdeep::LongRawFuzzyHash>(l, rng);
                c16::check_type::<ssdeep::DualFuzzyHash>(l, rng);
            }
            _ => {
                c16::check_type::<ssdeep::RawFuzzyHash>(l, rng);
                c16::check_type::<ssdeep::LongFuzzyHash>(l, rng);
                c16::check_type::<ssdeep::LongDualFuzzyHash>(l, rng);
            }
        }
        l.nt(0x5800 + i);
    }));

    // (6) generator: pieces ending at one chosen level 62 / 63 / 64 / 70 times, alone and after data
    let levels: [usize; 6] = [0, 1, 2, 28, 29, 30];
    let counts: [usize; 4] = [62, 63, 64, 70];
    streams.push(Stream::new("generator-saturation", (levels.len() * counts.len()) as u64, move |i, rng: &mut Rng, l: &mut Local| {
        let lv = levels[(i as usize) / counts.len()];
        let n = counts[(i as usize) % counts.len()];
        let mut d: Vec<u8> = Vec::new();
        if i % 2 == 1 {
            for _ in 0..rng.urange(1, 40) {
                d.push(rng.byte());
            }
        }
        for j in 0..n {
            d.extend_from_slice(&wref[lv][j % wref[lv].len()]);
        }
        if i % 3 != 0 {
            d.push(b'q');
        }
        c01::check_input(l, &d, "ubscan-saturation");
        l.nt(0x6000 + i);
    }));

    // (7) generator histories on small payloads that still see forks, eliminations and full
    // contexts (trigger words of the lowest levels every few bytes): chunked delivery through all
    // forms, copies by clone / clone_from, intermediate finalizations (C03's monitor), and
    // declaration / reset histories (C12's monitor); with the hook, histories that start after a
    // multi-GiB zero prefix so that the contexts of the largest block sizes are the live ones
    streams.push(Stream::new("generator-histories", 30, move |i, rng: &mut Rng, l: &mut Local| {
        match i % 3 {
            0 => {
                let mut d: Vec<u8> = Vec::new();
                let n = 150 + (i as usize % 5) * 90;
                while d.len() < n {
                    let lv = [0usize, 0, 1, 1, 2, 3, 4][rng.usize_below(7)];
                    d.extend_from_slice(&wref[lv][rng.usize_below(wref[lv].len())]);
                    for _ in 0..rng.urange(0, 5) {
                        d.push(rng.byte());
                    }
                }
                c03::check_payload(l, rng, &d, false, 2);
            }
            1 => c12::history(l, rng, wref),
            _ => {
                #[cfg(a4lg_ffuzzy_verif)]
                c03::large_offset_case(l, rng, wref, i);
                #[cfg(not(a4lg_ffuzzy_verif))]
                c12::history(l, rng, wref);
            }
        }
        l.nt(0x7000 + i);
    }));

    let mut rr = run_streams(o, streams);
    rr.local.inconclusive.extend(pre_inconclusive);
    finish(
        o,
        rr,
        Report {
            rule: format!("shaped plan for the undefined-behaviour detectors: {} block-hash shapes (lengths 0/1/6/7/8/capacity-1/capacity, runs ending at the end, completely filled RLE blocks, extreme symbols) paired on the diagonal and by one permutation (thorough: all pairs); texts through all parsers, the formatter contract, normalization/dual monitors, comparison through every entry point and combination of forms for six block-size relations (plus pairs where one side only fits the long type and the other is stored in the short type), constructors fed from exactly sized heap slices, position arrays for all pairs of ten boundary lengths with strings related by their ends (exactly sized heap slices), every object operation in windows of eight, reused targets / arrays and equality-ordering pools, generator inputs with 62/63/64/70 piece ends at six levels, thirty generator histories (chunked delivery, clone / clone_from, declarations, reset; a third of them after a multi-GiB zero prefix through the hook). Every case runs the per-case monitor of its property, so results are still compared with the oracles. Non-trivial = every planned case.", N_SHAPES),
            assumptions: vec![],
            exhaustive: false,
            min_nontrivial: 1,
            extra: vec![("shapes".into(), J::U(N_SHAPES as u64))],
        },
    )
}

//! C20 - block-size and score arithmetic is right on its entire (finite) domain.

use crate::ctx::{finish, guard, run_streams, Local, Opts, Report, Stream};
use crate::json::J;
use crate::oracle::model;
use crate::rng::Rng;
use crate::util::text_of;
use ssdeep::{block_hash, block_size, BlockSizeRelation, FuzzyHash, FuzzyHashCompareTarget, RawFuzzyHash};

fn valid_sizes() -> Vec<u32> {
    // built by repeated doubling, not by the library's formula
    let mut v = vec![3u32];
    while v.len() < 31 {
        let last = *v.last().unwrap();
        v.push(last + last);
    }
    v
}

pub fn run(o: &Opts) -> i32 {
    let sizes = valid_sizes();
    let sizes_ref = &sizes;
    let mut streams: Vec<Stream> = Vec::new();
    // (1) is_valid over all 2^32 values, in 4096 chunks of 2^20
    streams.push(
        Stream::new("is_valid-all-u32", 4096, move |i, _rng: &mut Rng, l: &mut Local| {
            let lo = (i as u64) << 20;
            let hi = lo + (1 << 20);
            // the valid sizes inside this chunk, from the doubling table
            let inside: Vec<u32> = sizes_ref.iter().copied().filter(|&s| (s as u64) >= lo && (s as u64) < hi).collect();
            let mut found: Vec<u32> = Vec::new();
            for v in lo..hi {
                if block_size::is_valid(v as u32) {
                    found.push(v as u32);
                }
            }
            l.eval(1 << 20);
            l.check(found == inside, "is_valid", || {
                (format!("C20|is_valid|chunk{}", i), format!("is_valid accepts {:?} in [{:#x},{:#x}) but the valid block sizes there are {:?}", found, lo, hi, inside))
            });
            for s in &inside {
                l.nt(*s as u64);
                l.nt(*s as u64 + 1);
                l.nt(*s as u64 - 1);
            }
            l.count("u32_values_checked", 1 << 20);
        })
        .grain(16),
    );
    // (2) logarithms, strings, relations
    streams.push(
        Stream::new("log-and-relations", 1, move |_i, _rng: &mut Rng, l: &mut Local| {
            for n in 0..=255u8 {
                l.eval(1);
                let r = guard(|| block_size::from_log(n));
                let want = if n < 31 { Some(sizes_ref[n as usize]) } else { None };
                match r {
                    Ok(v) => {
                        l.check(v == want, "from_log", || (format!("C20|from_log|{}", n), format!("from_log({}) = {:?} expected {:?}", n, v, want)));
                    }
                    Err(p) => l.violation("totality", format!("C20|from_log|{}|panic", n), format!("from_log({}) panicked: {}", n, p)),
                }
                l.check(block_size::is_log_valid(n) == (n < 31), "is_log_valid", || (format!("C20|is_log_valid|{}", n), format!("is_log_valid({}) wrong", n)));
                l.nt(0x1_0000 + n as u64);
            }
            for n in 0..31u8 {
                let bs = sizes_ref[n as usize];
                l.eval(3);
                let r = guard(|| block_size::log_from_valid(bs));
                l.check(r == Ok(n), "log_from_valid", || (format!("C20|log_from_valid|{}", bs), format!("log_from_valid({}) = {:?} expected {}", bs, r, n)));
                #[cfg(feature = "ffunchecked")]
                {
                    let u = unsafe { block_size::log_from_valid_unchecked(bs) };
                    let f = unsafe { block_size::from_log_unchecked(n) };
                    l.check(u == n && f == bs, "unchecked-twins", || (format!("C20|unchecked|{}", n), format!("unchecked log/from_log disagree at n={}", n)));
                }
                // canonical decimal form through the formatter of an empty hash
                let h = RawFuzzyHash::new_from_internals_near_raw(n, &[], &[]);
                let t = text_of(&h);
                let want = format!("{}::", bs as u64);
                l.check(t == want && h.block_size() == bs && h.log_block_size() == n, "block-size-string", || {
                    (format!("C20|string|{}", n), format!("empty hash with log block size {} renders as {:?} (block_size()={}), expected {:?}", n, t, h.block_size(), want))
                });
                let back = guard(|| RawFuzzyHash::from_bytes(want.as_bytes()).map(|h| h.log_block_size()));
                l.check(matches!(back, Ok(Ok(m)) if m == n), "block-size-string-parse", || (format!("C20|parse|{}", n), format!("{:?} does not parse back to log block size {}: {:?}", want, n, back)));
            }
            // invalid sizes must be refused by log_from_valid (panic), sampled around the valid ones
            for &s in sizes_ref.iter() {
                for d in [-2i64, -1, 1, 2, 3] {
                    let v = (s as i64 + d) as u32;
                    if sizes_ref.contains(&v) {
                        continue;
                    }
                    l.eval(1);
                    let r = guard(|| block_size::log_from_valid(v));
                    l.check(r.is_err(), "log_from_valid-refuses-invalid", || (format!("C20|log_from_valid|invalid|{}", v), format!("log_from_valid({}) returned {:?} instead of panicking", v, r)));
                }
            }
            l.check(block_size::MIN == 3 && block_size::NUM_VALID == 31, "constants", || ("C20|constants".into(), "block_size::MIN / NUM_VALID are not 3 / 31".into()));
            l.check(block_hash::FULL_SIZE == 64 && block_hash::HALF_SIZE == 32 && block_hash::ALPHABET_SIZE == 64 && block_hash::MAX_SEQUENCE_SIZE == 3 && block_hash::MIN_LCS_FOR_COMPARISON == 7, "constants", || {
                ("C20|constants|block_hash".into(), "block_hash constants differ from ssdeep's 64/32/64/3/7".into())
            });
            // all 31 x 31 pairs
            for a in 0..31u8 {
                for b in 0..31u8 {
                    l.eval(8);
                    let (ba, bb) = (sizes_ref[a as usize] as u64, sizes_ref[b as usize] as u64);
                    let want_rel = if ba == bb {
                        BlockSizeRelation::NearEq
                    } else if ba * 2 == bb {
                        BlockSizeRelation::NearLt
                    } else if ba == bb * 2 {
                        BlockSizeRelation::NearGt
                    } else {
                        BlockSizeRelation::Far
                    };
                    let r = guard(|| {
                        let ha = FuzzyHash::new_from_internals_near_raw(a, &[1], &[]);
                        let hb = FuzzyHash::new_from_internals_near_raw(b, &[2], &[]);
                        (
                            block_size::compare_sizes(a, b),
                            block_size::is_near(a, b),
                            block_size::is_near_eq(a, b),
                            block_size::is_near_lt(a, b),
                            block_size::is_near_gt(a, b),
                            block_size::cmp(a, b),
                            FuzzyHash::compare_block_sizes(&ha, &hb),
                            FuzzyHash::is_block_sizes_near(&ha, &hb),
                            FuzzyHash::is_block_sizes_near_eq(&ha, &hb),
                            FuzzyHash::is_block_sizes_near_lt(&ha, &hb),
                            FuzzyHash::is_block_sizes_near_gt(&ha, &hb),
                            ha.cmp_by_block_size(&hb),
                        )
                    });
                    match r {
                        Err(p) => l.violation("totality", format!("C20|relations|{}|{}|panic", a, b), format!("block size relation helpers panicked for ({},{}): {}", a, b, p)),
                        Ok((rel, near, eq, lt, gt, ord, orel, onear, oeq, olt, ogt, oord)) => {
                            let ok = rel == want_rel
                                && orel == want_rel
                                && near == (want_rel != BlockSizeRelation::Far)
                                && onear == near
                                && rel.is_near() == near
                                && eq == (want_rel == BlockSizeRelation::NearEq)
                                && oeq == eq
                                && lt == (want_rel == BlockSizeRelation::NearLt)
                                && olt == lt
                                && gt == (want_rel == BlockSizeRelation::NearGt)
                                && ogt == gt
                                && ord == ba.cmp(&bb)
                                && oord == ord;
                            l.check(ok, "block-size-relations", || {
                                (format!("C20|relations|{}|{}", a, b), format!("relation helpers for block sizes {} and {}: compare_sizes={:?} near={} eq={} lt={} gt={} cmp={:?} (objects: {:?} {} {} {} {} {:?}); definition says {:?}", ba, bb, rel, near, eq, lt, gt, ord, orel, onear, oeq, olt, ogt, oord, want_rel))
                            });
                        }
                    }
                    l.nt(0x2_0000 + a as u64 * 64 + b as u64);
                }
            }
            // capping border constant
            let mut border = 0u8;
            while (1u32 << border) * 7 < 100 {
                border += 1;
            }
            l.check(FuzzyHashCompareTarget::LOG_BLOCK_SIZE_CAPPING_BORDER == border, "capping-border", || {
                ("C20|border".into(), format!("LOG_BLOCK_SIZE_CAPPING_BORDER is {} but the least n with 2^n*7 >= 100 is {}", FuzzyHashCompareTarget::LOG_BLOCK_SIZE_CAPPING_BORDER, border))
            });
            l.sample(|| J::obj().set("domain", J::s("all 256 logarithms, all 31 strings, all 31x31 relations")));
        })
        .grain(1),
    );
    // (3) raw_score_by_edit_distance over all (l1, l2, d)
    streams.push(
        Stream::new("raw-score-all-triples", 58 * 58, |i, _rng: &mut Rng, l: &mut Local| {
            let l1 = 7 + (i / 58) as u8;
            let l2 = 7 + (i % 58) as u8;
            let dmax = l1 as u32 + l2 as u32 - 14;
            for d in 0..=dmax {
                l.eval(1);
                let r = guard(|| FuzzyHashCompareTarget::raw_score_by_edit_distance(l1, l2, d));
                let want = model::raw_score(l1 as u32, l2 as u32, d);
                match r {
                    Ok(s) => {
                        l.check(s == want && (1..=100).contains(&s), "raw_score", || {
                            (format!("C20|raw_score|{}|{}|{}", l1, l2, d), format!("raw_score_by_edit_distance({},{},{}) = {} but the ssdeep formula gives {} (must be within 1..=100)", l1, l2, d, s, want))
                        });
                    }
                    Err(p) => l.violation("totality", format!("C20|raw_score|{}|{}|{}|panic", l1, l2, d), format!("raw_score_by_edit_distance({},{},{}) panicked inside its domain: {}", l1, l2, d, p)),
                }
                #[cfg(feature = "ffunchecked")]
                {
                    let u = unsafe { FuzzyHashCompareTarget::raw_score_by_edit_distance_unchecked(l1, l2, d) };
                    l.check(u == want, "unchecked-twins", || (format!("C20|raw_score_unchecked|{}|{}|{}", l1, l2, d), format!("raw_score_by_edit_distance_unchecked({},{},{}) = {} expected {}", l1, l2, d, u, want)));
                }
                l.nt(0x10_0000_0000 + ((l1 as u64) << 24) + ((l2 as u64) << 16) + d as u64);
            }
            // just outside the domain: must panic (documented)
            l.eval(1);
            let r = guard(|| FuzzyHashCompareTarget::raw_score_by_edit_distance(l1, l2, dmax + 1));
            l.check(r.is_err(), "raw_score-refuses-out-of-domain", || (format!("C20|raw_score|{}|{}|{}|nodomain", l1, l2, dmax + 1), format!("raw_score_by_edit_distance({},{},{}) returned {:?} outside its domain", l1, l2, dmax + 1, r)));
            if l1 == 7 || l1 == 64 {
                for (a, b) in [(6u8, l2), (65u8, l2), (l2, 6u8), (l2, 65u8), (0, l2), (255, l2)] {
                    l.eval(1);
                    let r = guard(|| FuzzyHashCompareTarget::raw_score_by_edit_distance(a, b, 0));
                    l.check(r.is_err(), "raw_score-refuses-out-of-domain", || (format!("C20|raw_score|{}|{}|0|nodomain", a, b), format!("raw_score_by_edit_distance({},{},0) returned {:?} outside its domain", a, b, r)));
                }
            }
        })
        .grain(8),
    );
    // (4) score cap over all (n, l1, l2)
    streams.push(
        Stream::new("score-cap-all-triples", 32, |n, _rng: &mut Rng, l: &mut Local| {
            let n = n as u8;
            for l1 in 0..=64u8 {
                for l2 in 0..=64u8 {
                    l.eval(1);
                    let r = guard(|| FuzzyHashCompareTarget::score_cap_on_block_hash_comparison(n, l1, l2));
                    match r {
                        Ok(c) => {
                            if n < 4 {
                                let want = (1u32 << n) * (l1.min(l2) as u32);
                                l.check(c == want, "score_cap", || (format!("C20|score_cap|{}|{}|{}", n, l1, l2), format!("score_cap({},{},{}) = {} expected 2^n*min = {}", n, l1, l2, c, want)));
                                #[cfg(feature = "ffunchecked")]
                                {
                                    let u = unsafe { FuzzyHashCompareTarget::score_cap_on_block_hash_comparison_unchecked(n, l1, l2) };
                                    l.check(u == want, "unchecked-twins", || (format!("C20|score_cap_unchecked|{}|{}|{}", n, l1, l2), format!("score_cap_unchecked({},{},{}) = {} expected {}", n, l1, l2, u, want)));
                                }
                            } else {
                                l.check(c >= 100, "score_cap", || (format!("C20|score_cap|{}|{}|{}", n, l1, l2), format!("score_cap({},{},{}) = {} but must be at least 100 from the capping border upward", n, l1, l2, c)));
                            }
                        }
                        Err(p) => l.violation("totality", format!("C20|score_cap|{}|{}|{}|panic", n, l1, l2), format!("score_cap({},{},{}) panicked: {}", n, l1, l2, p)),
                    }
                    l.nt(0x20_0000_0000 + ((n as u64) << 16) + ((l1 as u64) << 8) + l2 as u64);
                }
            }
        })
        .grain(1),
    );
    let rr = run_streams(o, streams);
    finish(
        o,
        rr,
        Report {
            rule: "complete finite domains: is_valid over all 2^32 u32 values (exactly the 31 values built by doubling from 3), from_log/is_log_valid over all 256 u8, log_from_valid o from_log over the 31 sizes (+ panic on neighbours), canonical decimal strings through formatting and parsing an empty hash, every near/eq/lt/gt/compare_sizes/cmp helper (functions and object methods) over all 31x31 pairs, raw_score_by_edit_distance over all (l1,l2,d) with 7<=l<=64, d<=l1+l2-14 (+ panic just outside), score_cap over all (n,l1,l2) in 0..=31 x 0..=64 x 0..=64, the capping border constant. distinct_nontrivial counts distinct domain points outside the bulk of the u32 sweep (valid sizes and their neighbours, logarithms, pairs, triples).".into(),
            assumptions: vec![],
            exhaustive: true,
            min_nontrivial: 100_000,
            extra: vec![],
        },
    )
}

//! C17 - reused comparison targets carry nothing over from earlier hashes.

use crate::ctx::{finish, guard, run_streams, Local, Opts, Report, Stream};
use crate::json::{hex, J};
use crate::oracle::model::{self, HV};
use crate::rng::Rng;
use crate::types::HashLike;
use crate::work::hashes;
use ssdeep::internal_comparison::{BlockHashPositionArray, BlockHashPositionArrayData, BlockHashPositionArrayImpl};
use ssdeep::{DualFuzzyHash, FuzzyHash, FuzzyHashCompareTarget, LongDualFuzzyHash, LongFuzzyHash};

fn gen_seq(rng: &mut Rng) -> Vec<HV> {
    let k = rng.urange(2, 50.min(2 + rng.clone().usize_below(49)));
    let mut v: Vec<HV> = Vec::new();
    for i in 0..k {
        let h = match rng.below(9) {
            0 => HV { log: hashes::gen_log(rng), bh1: vec![], bh2: vec![] }, // empty
            1 => {
                // full length
                let mut h = hashes::gen_hv(rng, 64, true);
                while h.bh1.len() < 64 {
                    let s = rng.below(64) as u8;
                    let n = h.bh1.len();
                    if n >= 3 && h.bh1[n - 1] == s && h.bh1[n - 2] == s && h.bh1[n - 3] == s {
                        continue;
                    }
                    h.bh1.push(s);
                }
                h
            }
            2 if i > 0 => hashes::derive(rng, &v[i - 1], 64).normalized(),
            4 => {
                // both block hashes identical
                let mut h = hashes::gen_hv(rng, 64, true);
                h.bh2 = h.bh1.clone();
                h
            }
            5 if i > 0 => {
                // differs from its predecessor in exactly one component, same lengths
                let mut h = v[i - 1].clone();
                match rng.below(4) {
                    0 => {
                        if !h.bh2.is_empty() {
                            let p = rng.usize_below(h.bh2.len());
                            h.bh2[p] = (h.bh2[p] + 1 + rng.below(62) as u8) % 64;
                        }
                    }
                    1 => {
                        if !h.bh1.is_empty() {
                            let p = rng.usize_below(h.bh1.len());
                            h.bh1[p] = (h.bh1[p] + 1 + rng.below(62) as u8) % 64;
                        }
                    }
                    2 => h.log = (h.log + 1) % 31,
                    _ => std::mem::swap(&mut h.bh1, &mut h.bh2),
                }
                h.normalized()
            }
            3 if i > 0 => v[rng.usize_below(i)].clone(),
            _ => hashes::gen_hv(rng, 64, true),
        };
        v.push(h);
    }
    v
}

pub fn check_target_seq(l: &mut Local, rng: &mut Rng) {
    let seq = gen_seq(rng);
    let sig = |i: usize, w: &str| format!("C17|target|{}|step{}|{}", w, i, seq.iter().take(i + 1).map(|h| h.text()).collect::<Vec<_>>().join(";"));
    let longs: Vec<LongFuzzyHash> = seq.iter().map(|h| LongFuzzyHash::build(h)).collect();
    let r = guard(|| {
        let mut t = FuzzyHashCompareTarget::new();
        let mut changed_len = false;
        for (i, h) in seq.iter().enumerate() {
            // operand kind: long, short (if it fits), dual, long dual
            let short_ok = h.bh2.len() <= 32;
            match rng.below(5) {
                // a copy onto the live target counts as a re-initialization too
                4 => t.clone_from(&FuzzyHashCompareTarget::from(&longs[i])),
                0 if short_ok => t.init_from(&FuzzyHash::build(h)),
                1 if short_ok => t.init_from(&DualFuzzyHash::new_from_internals_near_raw(h.log, &h.bh1, &h.bh2)),
                2 => t.init_from(&LongDualFuzzyHash::new_from_internals_near_raw(h.log, &h.bh1, &h.bh2)),
                _ => t.init_from(&longs[i]),
            }
            if i > 0 && (seq[i - 1].bh1.len() != h.bh1.len() || seq[i - 1].bh2.len() != h.bh2.len()) {
                changed_len = true;
            }
            let fresh = FuzzyHashCompareTarget::from(&longs[i]);
            l.eval(1);
            l.check(t.is_valid(), "target-valid", || (sig(i, "valid"), format!("target re-initialized from {} (step {}) fails is_valid()", h.text(), i)));
            l.check(t.full_eq(&fresh) && t.log_block_size() == h.log && t.block_size() as u64 == 3u64 << h.log, "target-equals-fresh", || {
                (sig(i, "full_eq"), format!("target re-initialized from {} after {} earlier initializations is not structurally equal to a fresh one", h.text(), i))
            });
            for (j, other) in seq.iter().enumerate() {
                l.eval(1);
                let eqv = t.is_equiv(&longs[j]);
                l.check(eqv == (other == h), "target-is_equiv", || (sig(i, &format!("is_equiv{}", j)), format!("target holding {} reports is_equiv({}) = {}", h.text(), other.text(), eqv)));
                let (s1, s2) = (t.compare(&longs[j]), fresh.compare(&longs[j]));
                let (c1, c2) = (t.is_comparison_candidate(&longs[j]), fresh.is_comparison_candidate(&longs[j]));
                l.check(s1 == s2 && c1 == c2, "target-same-answers", || {
                    (sig(i, &format!("answers{}", j)), format!("reused target holding {} answers score {} candidate {} against {}, a fresh target answers {} / {}", h.text(), s1, c1, other.text(), s2, c2))
                });
                // accessors agree with the strings
                let a1 = t.block_hash_1().is_equiv(&other.bh1);
                let a2 = t.block_hash_2().is_equiv(&other.bh2);
                l.check(a1 == (other.bh1 == h.bh1) && a2 == (other.bh2 == h.bh2), "target-accessors", || (sig(i, &format!("accessors{}", j)), format!("block_hash_1/2().is_equiv of target holding {} against {}: {} / {}", h.text(), other.text(), a1, a2)));
            }
            let (l1, l2) = (t.block_hash_1().len() as usize, t.block_hash_2().len() as usize);
            l.check(l1 == h.bh1.len() && l2 == h.bh2.len(), "target-accessors", || (sig(i, "len"), format!("target holding {} reports lengths {} / {}", h.text(), l1, l2)));
        }
        changed_len
    });
    match r {
        Ok(changed) => {
            if changed {
                l.nt(crate::rng::fnv64(seq.iter().map(|h| h.text()).collect::<Vec<_>>().join(";").as_bytes()));
            }
        }
        Err(p) => l.violation("totality", sig(seq.len() - 1, "panic"), format!("target reuse panicked: {}", p)),
    }
    l.histn("sequence_len", seq.len() as u64);
    l.sample(|| J::obj().set("sequence", J::A(seq.iter().take(6).map(|h| J::s(h.text())).collect())));
}

pub fn check_array_seq(l: &mut Local, rng: &mut Rng) {
    let k = rng.urange(2, 30);
    let strings: Vec<Vec<u8>> = (0..k)
        .map(|_| match rng.below(5) {
            0 => vec![],
            1 => (0..64).map(|_| rng.below(64) as u8).collect(),
            _ => hashes::gen_bh(rng, 64),
        })
        .collect();
    let sig = |i: usize, w: &str| format!("C17|array|{}|step{}|{}", w, i, strings.iter().take(i + 1).map(|s| hex(s)).collect::<Vec<_>>().join(";"));
    let r = guard(|| {
        let mut pa = BlockHashPositionArray::new();
        for (i, s) in strings.iter().enumerate() {
            if rng.chance(1, 5) {
                pa.clear();
                l.eval(1);
                let empty = BlockHashPositionArray::new();
                l.check(pa == empty && pa.is_valid() && pa.is_empty() && pa.len() == 0 && pa.is_equiv(&[]), "array-clear", || (sig(i, "clear"), "clear() does not give an array equal to a new one".to_string()));
            }
            if rng.chance(1, 6) {
                // a refused initialization (out-of-contract input, panics as documented) in between must
                // not leave anything behind for the next successful one
                let mut bad: Vec<u8> = hashes::gen_bh(rng, 64);
                if rng.chance(1, 2) || bad.is_empty() {
                    bad.extend((0..(65 - bad.len().min(64))).map(|k| (k % 64) as u8));
                    bad.push(1);
                } else {
                    let p = rng.usize_below(bad.len());
                    bad[p] = 64 + rng.below(192) as u8;
                }
                let refused = guard(|| pa.init_from(&bad)).is_err();
                l.count(if refused { "refused_init_from" } else { "accepted_out_of_contract_init_from" }, 1);
            }
            pa.init_from(s);
            let mut fresh = BlockHashPositionArray::new();
            fresh.init_from(s);
            l.eval(1);
            l.check(pa == fresh && pa.representation() == fresh.representation(), "array-equals-fresh", || (sig(i, "fresh"), format!("array re-initialized from {} is not equal to a fresh one", hex(s))));
            l.check(pa.is_valid() && pa.len() as usize == s.len() && pa.is_empty() == s.is_empty(), "array-represents-string", || (sig(i, "valid"), format!("array built from {}: is_valid={} len={}", hex(s), pa.is_valid(), pa.len())));
            l.check(pa.is_valid_and_normalized() == model::is_normalized(s), "array-normalization-test", || (sig(i, "norm"), format!("array built from {}: is_valid_and_normalized()={} but the string is {}normalized", hex(s), pa.is_valid_and_normalized(), if model::is_normalized(s) { "" } else { "not " })));
            // the representation is exactly the positions of each symbol
            let mut want = [0u64; 64];
            for (p, &c) in s.iter().enumerate() {
                want[c as usize] |= 1u64 << p;
            }
            l.check(*pa.representation() == want, "array-represents-string", || (sig(i, "repr"), format!("representation of the array built from {} is not the position sets of its symbols", hex(s))));
            for (j, o2) in strings.iter().enumerate() {
                l.eval(1);
                let e = pa.is_equiv(o2);
                l.check(e == (o2 == s), "array-is_equiv", || (sig(i, &format!("is_equiv{}", j)), format!("array holding {} reports is_equiv({}) = {}", hex(s), hex(o2), e)));
            }
            // near misses of the equivalence test
            if !s.is_empty() {
                let mut t = s.clone();
                let p = rng.usize_below(t.len());
                t[p] = (t[p] + 1 + rng.below(62) as u8) % 64;
                let mut shorter = s.clone();
                shorter.pop();
                let mut longer = s.clone();
                longer.push(s[0]);
                l.eval(3);
                l.check(!pa.is_equiv(&t) && !pa.is_equiv(&shorter) && (longer.len() > 64 || !pa.is_equiv(&longer)), "array-is_equiv", || (sig(i, "nearmiss"), format!("array holding {} claims equivalence to a different string", hex(s))));
            }
        }
    });
    if let Err(p) = r {
        l.violation("totality", sig(strings.len() - 1, "panic"), format!("position array reuse panicked: {}", p));
    }
    l.nt(crate::rng::fnv64(&strings.concat()) ^ strings.len() as u64);
}

pub fn run(o: &Opts) -> i32 {
    let mut streams: Vec<Stream> = Vec::new();
    streams.push(Stream::new("target-sequences", o.n(20_000, 1_500_000), |_i, rng: &mut Rng, l: &mut Local| {
        check_target_seq(l, rng);
    }));
    streams.push(Stream::new("array-sequences", o.n(20_000, 1_500_000), |_i, rng: &mut Rng, l: &mut Local| {
        check_array_seq(l, rng);
    }));
    let rr = run_streams(o, streams);
    finish(
        o,
        rr,
        Report {
            rule: "sequences of 2..50 normalized hashes of very different lengths (long -> short -> empty -> long, derived neighbours, repeats) loaded into ONE FuzzyHashCompareTarget by init_from with short/long/dual/long-dual operands; after every step the target must be valid, full_eq to From(&h_i), is_equiv exactly to h_i among all hashes of the sequence, and give the same score and candidate answers as a fresh target against every hash of the sequence; accessors agree with the strings. Likewise sequences of 2..30 strings through BlockHashPositionArray::init_from / clear: equal to a fresh array, representation = position sets, is_equiv / len / is_valid / is_valid_and_normalized agree with the string. Non-trivial = consecutive hashes differ in length / array sequence; distinct by sequence.".into(),
            assumptions: vec![],
            exhaustive: false,
            min_nontrivial: 5000 * o.scale_pct / 100,
            extra: vec![],
        },
    )
}

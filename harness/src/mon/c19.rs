//! C19 - the exposed hash primitives equal their mathematical definitions (oracle O9).

use crate::ctx::{finish, guard, run_streams, Local, Opts, Report, Stream};
use crate::json::{hex, J};
use crate::mon::common;
use crate::oracle::naive::{fnv32, roll_at, roll_of_window};
use crate::rng::{fnv64, Rng};
use crate::work::bytes;
use ssdeep::internal_hashes::{PartialFNVHash, RollingHash};

/// all six update forms of both primitives over `data`, split at `cut`
fn roll_forms(data: &[u8], cut: usize) -> Vec<(&'static str, u32)> {
    let (a, b) = data.split_at(cut.min(data.len()));
    let mut out = Vec::new();
    let mut h = RollingHash::new();
    h.update(a).update(b);
    out.push(("update", h.value()));
    let mut h = RollingHash::new();
    h.update_by_iter(a.iter().copied()).update_by_iter(b.iter().copied());
    out.push(("update_by_iter", h.value()));
    // iterators whose size_hint is not exact (upper bound larger than the real count, or unknown)
    let mut h = RollingHash::new();
    h.update_by_iter(data.iter().copied().filter(|_| true));
    out.push(("update_by_iter(filter)", h.value()));
    let mut h = RollingHash::new();
    let mut keep = 0usize;
    h.update_by_iter(data.iter().copied().chain(std::iter::repeat(0u8).take(40)).take_while(|_| {
        keep += 1;
        keep <= data.len()
    }));
    out.push(("update_by_iter(take_while over a longer iterator)", h.value()));
    let mut h = RollingHash::new();
    h.update_by_iter(data.chunks(3).flat_map(|c| c.iter().copied()));
    out.push(("update_by_iter(flat_map)", h.value()));
    let mut h = RollingHash::new();
    h.update_by_iter(a.iter().copied().chain(b.iter().copied()).skip_while(|_| false));
    out.push(("update_by_iter(chain+skip_while)", h.value()));
    let mut h = RollingHash::new();
    for &c in data {
        h.update_by_byte(c);
    }
    out.push(("update_by_byte", h.value()));
    let mut h = RollingHash::default();
    h += a;
    h += b;
    out.push(("+= &[u8]", h.value()));
    let mut h = RollingHash::new();
    for ch in data.chunks(3) {
        match ch.len() {
            3 => {
                let arr: &[u8; 3] = ch.try_into().unwrap();
                h += arr;
            }
            _ => {
                for &c in ch {
                    h += c;
                }
            }
        }
    }
    out.push(("+= &[u8;3] / += u8", h.value()));
    macro_rules! arrays {
        ($n:literal, $name:literal) => {{
            let mut h = RollingHash::new();
            let mut it = data.chunks_exact($n);
            for ch in &mut it {
                let arr: &[u8; $n] = ch.try_into().unwrap();
                h += arr;
            }
            h.update(it.remainder());
            out.push(($name, h.value()));
        }};
    }
    arrays!(1, "+= &[u8;1]");
    arrays!(2, "+= &[u8;2]");
    arrays!(6, "+= &[u8;6]");
    arrays!(7, "+= &[u8;7]");
    arrays!(8, "+= &[u8;8]");
    arrays!(9, "+= &[u8;9]");
    arrays!(13, "+= &[u8;13]");
    arrays!(16, "+= &[u8;16]");
    arrays!(64, "+= &[u8;64]");
    arrays!(257, "+= &[u8;257]");
    let mut h = RollingHash::new();
    for &c in data {
        h += c;
    }
    out.push(("+= u8", h.value()));
    out
}
fn fnv_forms(data: &[u8], cut: usize) -> Vec<(&'static str, u8)> {
    let (a, b) = data.split_at(cut.min(data.len()));
    let mut out = Vec::new();
    let mut h = PartialFNVHash::new();
    h.update(a).update(b);
    out.push(("update", h.value()));
    let mut h = PartialFNVHash::new();
    h.update_by_iter(a.iter().copied()).update_by_iter(b.iter().copied());
    out.push(("update_by_iter", h.value()));
    let mut h = PartialFNVHash::new();
    h.update_by_iter(data.iter().copied().filter(|_| true));
    out.push(("update_by_iter(filter)", h.value()));
    let mut h = PartialFNVHash::new();
    h.update_by_iter(data.chunks(3).flat_map(|c| c.iter().copied()));
    out.push(("update_by_iter(flat_map)", h.value()));
    let mut h = PartialFNVHash::new();
    for &c in data {
        h.update_by_byte(c);
    }
    out.push(("update_by_byte", h.value()));
    let mut h = PartialFNVHash::default();
    h += a;
    h += b;
    out.push(("+= &[u8]", h.value()));
    let mut h = PartialFNVHash::new();
    for ch in data.chunks(3) {
        match ch.len() {
            3 => {
                let arr: &[u8; 3] = ch.try_into().unwrap();
                h += arr;
            }
            _ => {
                for &c in ch {
                    h += c;
                }
            }
        }
    }
    out.push(("+= &[u8;3] / += u8", h.value()));
    macro_rules! arrays {
        ($n:literal, $name:literal) => {{
            let mut h = PartialFNVHash::new();
            let mut it = data.chunks_exact($n);
            for ch in &mut it {
                let arr: &[u8; $n] = ch.try_into().unwrap();
                h += arr;
            }
            h.update(it.remainder());
            out.push(($name, h.value()));
        }};
    }
    arrays!(1, "+= &[u8;1]");
    arrays!(2, "+= &[u8;2]");
    arrays!(6, "+= &[u8;6]");
    arrays!(7, "+= &[u8;7]");
    arrays!(8, "+= &[u8;8]");
    arrays!(9, "+= &[u8;9]");
    arrays!(13, "+= &[u8;13]");
    arrays!(16, "+= &[u8;16]");
    arrays!(64, "+= &[u8;64]");
    arrays!(257, "+= &[u8;257]");
    let mut h = PartialFNVHash::new();
    for &c in data {
        h += c;
    }
    out.push(("+= u8", h.value()));
    out
}

fn check_string(l: &mut Local, data: &[u8], rng: &mut Rng) {
    let sig = |w: &str| format!("C19|{}|{}", w, hex(&data[..data.len().min(64)]));
    // rolling hash at every prefix
    let r = guard(|| {
        let mut h = RollingHash::new();
        let mut vals = Vec::with_capacity(data.len());
        for &c in data {
            h.update_by_byte(c);
            vals.push(h.value());
        }
        vals
    });
    let vals = match r {
        Ok(v) => v,
        Err(p) => {
            l.violation("totality", sig("roll-panic"), format!("RollingHash panicked: {}", p));
            return;
        }
    };
    for (i, v) in vals.iter().enumerate() {
        let want = roll_at(data, i);
        l.eval(1);
        if !l.check(*v == want, "rolling-hash-definition", || {
            (sig("roll"), format!("RollingHash value after {} bytes of {} is {:#010x}, the definition over the last 7 bytes gives {:#010x}", i + 1, hex(&data[..(i + 1).min(40)]), v, want))
        }) {
            break;
        }
        if want == 0 && data[i.saturating_sub(6)..=i].iter().any(|&b| b != 0) {
            l.count("roll_zero_nonzero_window", 1);
        }
        if want == u32::MAX {
            l.count("roll_ffffffff", 1);
        }
    }
    // window-only dependence: 7 arbitrary bytes, then the last 7 bytes of data
    if data.len() >= 7 {
        let mut junk = [0u8; 7];
        rng.fill(&mut junk);
        let tail = &data[data.len() - 7..];
        let mut h = RollingHash::new();
        h.update(&junk).update(tail);
        let w: [u8; 7] = tail.try_into().unwrap();
        l.eval(1);
        l.check(h.value() == roll_of_window(&w) && h.value() == *vals.last().unwrap(), "rolling-hash-window-only", || {
            (sig("roll-window"), format!("after junk {} + window {} the value is {:#010x}; expected {:#010x} (depends on more than the last 7 bytes)", hex(&junk), hex(tail), h.value(), roll_of_window(&w)))
        });
    }
    // all update forms
    let cut = if data.is_empty() { 0 } else { rng.usize_below(data.len() + 1) };
    let want_r = if data.is_empty() { 0 } else { roll_at(data, data.len() - 1) };
    let want_f = (fnv32(data) & 63) as u8;
    match guard(|| (roll_forms(data, cut), fnv_forms(data, cut))) {
        Ok((rf, ff)) => {
            for (name, v) in rf {
                l.eval(1);
                l.check(v == want_r, "rolling-hash-forms", || (sig(&format!("roll-form-{}", name)), format!("RollingHash via {} gives {:#010x} expected {:#010x} on {} bytes", name, v, want_r, data.len())));
            }
            for (name, v) in ff {
                l.eval(1);
                l.check(v == want_f, "fnv-definition", || (sig(&format!("fnv-form-{}", name)), format!("PartialFNVHash via {} gives {} but the low 6 bits of 32-bit FNV-1 (init 0x28021967) are {} on {} bytes {}", name, v, want_f, data.len(), hex(&data[..data.len().min(40)]))));
            }
        }
        Err(p) => l.violation("totality", sig("forms-panic"), format!("hash primitive panicked: {}", p)),
    }
    if data.len() >= 8 {
        l.nt(fnv64(data));
    }
}

pub fn run(o: &Opts) -> i32 {
    let mut pre = Vec::new();
    let words = match common::words_or_inconclusive() {
        Ok(w) => w,
        Err(e) => {
            pre.push(e);
            vec![vec![[0u8; 7]]; 33]
        }
    };
    let wref = &words;
    let mut streams: Vec<Stream> = Vec::new();
    // FNV step: exhaustive 64 states x 256 bytes, each state reached from new() by BFS
    streams.push(
        Stream::new("fnv-step-exhaustive", 1, |_i, _rng: &mut Rng, l: &mut Local| {
            // BFS over observable states (value()) using the library itself to step
            let mut prefix: Vec<Option<Vec<u8>>> = vec![None; 64];
            let start = PartialFNVHash::new().value() as usize;
            prefix[start] = Some(vec![]);
            let mut queue = std::collections::VecDeque::new();
            queue.push_back(start);
            while let Some(s) = queue.pop_front() {
                let p = prefix[s].clone().unwrap();
                for b in 0..=255u8 {
                    let mut h = PartialFNVHash::new();
                    h.update(&p).update_by_byte(b);
                    let t = h.value() as usize;
                    if t < 64 && prefix[t].is_none() {
                        let mut q = p.clone();
                        q.push(b);
                        prefix[t] = Some(q);
                        queue.push_back(t);
                    }
                }
            }
            let reached = prefix.iter().filter(|p| p.is_some()).count();
            l.count("fnv_states_reached", reached as u64);
            if reached != 64 {
                l.violation("fnv-definition", "C19|fnv|states".into(), format!("only {} of the 64 FNV states are reachable from new()", reached));
            }
            l.check(start == 0x27, "fnv-definition", || ("C19|fnv|init".into(), format!("initial PartialFNVHash value is {:#x}, expected 0x28021967 mod 64 = 0x27", start)));
            for s in 0..64usize {
                if let Some(p) = &prefix[s] {
                    // the state the oracle assigns to this prefix must agree
                    l.check((fnv32(p) & 63) as usize == s, "fnv-definition", || (format!("C19|fnv|state|{}", s), format!("prefix {} reaches state {} but FNV-1 gives {}", hex(p), s, fnv32(p) & 63)));
                    for b in 0..=255u8 {
                        let mut d = p.clone();
                        d.push(b);
                        let want = (fnv32(&d) & 63) as u8;
                        for (name, v) in fnv_forms(&d, p.len()) {
                            l.eval(1);
                            l.check(v == want, "fnv-step", || (format!("C19|fnv|step|{}|{}|{}", s, b, name), format!("FNV step from state {} with byte {:#04x} via {} gives {} expected {}", s, b, name, v, want)));
                        }
                        l.nt(0x100_0000 + (s as u64) * 256 + b as u64);
                    }
                }
            }
            l.sample(|| J::obj().set("fnv", J::s("all 64 states x 256 bytes x 6 update forms")));
        })
        .grain(1),
    );
    streams.push(Stream::new("w1-strings", o.n(20_000, 1_000_000), |_i, rng: &mut Rng, l: &mut Local| {
        let d = bytes::gen_w1(rng, 512);
        check_string(l, &d, rng);
        l.sample(|| J::obj().set("input", crate::json::bytes_desc(&d)));
    }));
    streams.push(Stream::new("w2-strings", o.n(5_000, 300_000), move |_i, rng: &mut Rng, l: &mut Local| {
        let (d, _) = bytes::gen_w2(rng, wref, 64);
        let d = &d[..d.len().min(2000)];
        check_string(l, d, rng);
    }));
    // every window content class: all words of the table, every byte position varied
    streams.push(Stream::new("word-windows", 33 * 256, move |i, rng: &mut Rng, l: &mut Local| {
        let lv = (i / 256) as usize;
        let b = (i % 256) as u8;
        let mut w = wref[lv][rng.usize_below(wref[lv].len())];
        let pos = rng.usize_below(8);
        if pos < 7 {
            w[pos] = b;
        }
        let mut d = vec![b; rng.urange(0, 9)];
        d.extend_from_slice(&w);
        check_string(l, &d, rng);
    }));
    // one slice of more than 4 GiB (lengths that do not fit into 32 bits), then a few more bytes
    let thorough = o.is_thorough();
    #[cfg(target_pointer_width = "64")]
    streams.push(
        Stream::new("huge-slice", if thorough { 4 } else { 2 }, move |i, rng: &mut Rng, l: &mut Local| {
            let extra = 16 + rng.usize_below(40);
            // 4 GiB + k (quick) and also 8 GiB + k, 12 GiB + k (thorough); lazily mapped zero pages
            let len = (1usize << 32) * (1 + (i as usize / 2) * (1 + (i as usize % 2))) + extra;
            let mut big = vec![0u8; len];
            let n = big.len();
            for k in 0..extra {
                big[n - extra + k] = rng.byte() | 1;
            }
            let more: Vec<u8> = (0..12).map(|_| rng.byte()).collect();
            let sig = format!("C19|huge-slice|len={}", len);
            if i % 2 == 0 {
                // rolling hash: value after the slice and after every following byte against the definition
                let r = guard(|| {
                    let mut h = RollingHash::new();
                    h.update(&big);
                    let mut vals = vec![h.value()];
                    for (k, &c) in more.iter().enumerate() {
                        match k % 3 {
                            0 => {
                                h.update_by_byte(c);
                            }
                            1 => h += c,
                            _ => {
                                h.update(&[c]);
                            }
                        }
                        vals.push(h.value());
                    }
                    vals
                });
                match r {
                    Ok(vals) => {
                        let mut tail: Vec<u8> = big[n - 7..].to_vec();
                        for (k, v) in vals.iter().enumerate() {
                            if k > 0 {
                                tail.push(more[k - 1]);
                            }
                            let w: [u8; 7] = tail[tail.len() - 7..].try_into().unwrap();
                            l.eval(1);
                            l.check(*v == roll_of_window(&w), "rolling-hash-definition", || (format!("{}|roll|{}", sig, k), format!("after one slice of {} bytes and {} more byte(s) the rolling hash is {:#010x}, the definition over the last 7 bytes gives {:#010x}", len, k, v, roll_of_window(&w))));
                        }
                    }
                    Err(p) => l.violation("totality", format!("{}|roll-panic", sig), format!("RollingHash panicked on a {}-byte slice: {}", len, p)),
                }
            } else {
                // FNV: zero bytes act as h -> h*0x93 (mod 64), a permutation of period dividing 16
                let r = guard(|| {
                    let mut h = PartialFNVHash::new();
                    h.update(&big);
                    h.update(&more);
                    h.value()
                });
                let mut st: u32 = 0x2802_1967;
                let zeros = (n - extra) as u64;
                for _ in 0..(zeros % 64) {
                    st = st.wrapping_mul(0x0100_0193);
                    st &= 0xff; // only the low bits ever matter; keep it small
                }
                let mut want = st;
                for &c in big[n - extra..].iter().chain(more.iter()) {
                    want = want.wrapping_mul(0x0100_0193) ^ (c as u32);
                }
                l.eval(1);
                match r {
                    Ok(v) => {
                        l.check(v as u32 == (want & 63), "fnv-definition", || (format!("{}|fnv", sig), format!("PartialFNVHash after one slice of {} bytes (+12) is {}, FNV-1 gives {}", len, v, want & 63)));
                    }
                    Err(p) => l.violation("totality", format!("{}|fnv-panic", sig), format!("PartialFNVHash panicked on a {}-byte slice: {}", len, p)),
                }
            }
            l.nt(0x4000_0000_0000 + len as u64);
            l.count("huge_slices", 1);
        })
        .grain(1),
    );
    let mut rr = run_streams(o, streams);
    rr.local.inconclusive.extend(pre);
    finish(
        o,
        rr,
        Report {
            rule: "FNV step: every one of the 64 observable states (reached from new() by BFS) x all 256 bytes x six update forms against the low 6 bits of 32-bit FNV-1 with initial value 0x28021967 (complete). Rolling hash: at EVERY prefix of W1/W2 strings and of all trigger words (incl. value 0 with a non-zero window and 0xffffffff) against sum + position-weighted sum + shift-5-xor fold over the trailing 7 bytes recomputed from scratch; dependence on the window only (7 junk bytes then the window); the update forms (update, update_by_iter with exact-size AND inexact-size iterators - filter, take_while over a longer iterator, flat_map, chain - update_by_byte, += &[u8], += &[u8;N] for N in 1,2,3,6,7,8,9,13,16,64,257 i.e. below, at and above the window size, += u8) agree. Two single slices of more than 4 GiB and 8 GiB (lengths beyond 32 bits) followed by more bytes. Non-trivial = string of >= 8 bytes, or an FNV (state, byte) step; distinct by content.".into(),
            assumptions: vec![],
            exhaustive: false,
            min_nontrivial: 16_384,
            extra: vec![("exhaustive_subspaces".into(), J::s("FNV step: 64 states x 256 bytes"))],
        },
    )
}

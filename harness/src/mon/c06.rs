//! C06 - normalization collapses runs to three, idempotently, on every route (oracle O4).
//! C07 - dual hashes are a lossless, canonical encoding of raw plus normalized.

use crate::ctx::{finish, guard, run_streams, Local, Opts, Report, Stream};
use crate::json::J;
use crate::oracle::model::{self, HV};
use crate::rng::Rng;
use crate::types::HashLike;
use crate::util::text_of;
use crate::work::hashes;
use std::hash::{Hash, Hasher};

/// hasher that records the exact call stream
#[derive(Default)]
pub struct Rec(pub Vec<u8>);
impl Hasher for Rec {
    fn finish(&self) -> u64 {
        crate::rng::fnv64(&self.0)
    }
    fn write(&mut self, bytes: &[u8]) {
        self.0.push(0xfe);
        self.0.extend_from_slice(&(bytes.len() as u32).to_le_bytes());
        self.0.extend_from_slice(bytes);
    }
    fn write_u8(&mut self, i: u8) {
        self.0.push(0xf1);
        self.0.push(i);
    }
}
pub fn hash_stream_of<T: Hash>(t: &T) -> Vec<u8> {
    let mut r = Rec::default();
    t.hash(&mut r);
    r.0
}

// ------------------------------------------------------------------ C06

macro_rules! c06_family {
    ($l:expr, $raw:expr, $R:ty, $N:ty, $D:ty, $rng:expr) => {{
        let r: &HV = $raw;
        let want = r.normalized();
        let rname = <$R as HashLike>::NAME;
        let sig = |w: &str| format!("C06|{}|{}|{}", rname, w, r.text());
        let res = guard(|| {
            let raw = <$R as HashLike>::build(r);
            let fresh = <$N as HashLike>::build(&want);
            let mut routes: Vec<(&'static str, $N)> = Vec::new();
            routes.push(("normalize()", raw.normalize()));
            routes.push(("From<Raw>", <$N>::from(raw)));
            routes.push(("from_raw_form()", <$N>::from_raw_form(&raw)));
            routes.push(("parse(text)", <$N>::from_bytes(r.text().as_bytes()).expect("normalizing parser refused a valid raw text")));
            routes.push(("Dual::from_raw_form().as_normalized()", *<$D>::from_raw_form(&raw).as_normalized()));
            routes.push(("Dual::parse(text).to_normalized()", <$D>::from_bytes(r.text().as_bytes()).expect("dual parser refused a valid raw text").to_normalized()));
            // a reused dual object: it held a value with many long runs before
            let mut reused = <$D>::from_raw_form(&<$R as HashLike>::build(&HV { log: 2, bh1: [[5u8; 6], [6u8; 6], [7u8; 6], [8u8; 6]].concat().repeat(2), bh2: [[9u8; 5], [10u8; 5], [11u8; 5]].concat().repeat(2) }));
            reused.init_from_raw_form(&raw);
            routes.push(("reused Dual::init_from_raw_form().as_normalized()", *reused.as_normalized()));
            let reused_flag = reused.is_normalized();
            routes.push(("normalize().normalize()", raw.normalize().normalize()));
            routes.push(("normalize().clone_normalized()", raw.normalize().clone_normalized()));
            // in-place forms keep the raw type
            let mut inplace = raw;
            inplace.normalize_in_place();
            let cloned = raw.clone_normalized();
            let mut twice = inplace;
            twice.normalize_in_place();
            // dirty destination: an object that held a longer value before
            let mut dirty = <$R as HashLike>::build(&HV { log: 3, bh1: vec![63; 64], bh2: vec![62; <$R as HashLike>::S2] });
            raw.normalize().into_mut_raw_form(&mut dirty);
            dirty = if dirty.is_valid() { raw } else { dirty };
            dirty.normalize_in_place();
            let raw_routes: Vec<(&'static str, $R)> = vec![("normalize_in_place()", inplace), ("clone_normalized()", cloned), ("normalize_in_place() twice", twice), ("normalize_in_place() on reused object", dirty)];
            let raw_fresh = <$R as HashLike>::build(&want);
            let flags = (raw.is_normalized(), fresh.is_normalized(), <$D>::from_raw_form(&raw).is_normalized(), inplace.is_normalized(), reused_flag);
            (routes, fresh, raw_routes, raw_fresh, flags)
        });
        match res {
            Err(p) => $l.violation("totality", sig("panic"), format!("normalizing {} panicked: {}", r.text(), p)),
            Ok((routes, fresh, raw_routes, raw_fresh, flags)) => {
                for (name, h) in routes {
                    $l.eval(1);
                    let st = h.stored();
                    $l.check(st == want && h.full_eq(&fresh) && h.is_valid(), "normalization-route", || {
                        (sig(name), format!("{} of {} gives {} (valid={}, structurally equal to a fresh object={}) but collapsing runs to three gives {}", name, r.text(), st.text(), h.is_valid(), h.full_eq(&fresh), want.text()))
                    });
                }
                for (name, h) in raw_routes {
                    $l.eval(1);
                    let st = h.stored();
                    $l.check(st == want && h.full_eq(&raw_fresh) && h.is_valid(), "normalization-route", || {
                        (sig(name), format!("{} of {} gives {} (valid={}, structurally equal to a fresh object={}) but collapsing runs to three gives {}", name, r.text(), st.text(), h.is_valid(), h.full_eq(&raw_fresh), want.text()))
                    });
                }
                let isn = r.is_normalized();
                $l.eval(5);
                $l.check(flags.0 == isn && flags.1 && flags.2 == isn && flags.3 && flags.4 == isn, "is_normalized", || {
                    (sig("is_normalized"), format!("is_normalized(): raw={} normalized={} dual={} after-in-place={} reused-dual={} but normalization {} {}", flags.0, flags.1, flags.2, flags.3, flags.4, if isn { "leaves unchanged" } else { "changes" }, r.text()))
                });
            }
        }
    }};
}

pub fn check_c06(l: &mut Local, long: &HV, rng: &mut Rng) {
    let mut short = long.clone();
    short.bh2.truncate(32);
    c06_family!(l, long, ssdeep::LongRawFuzzyHash, ssdeep::LongFuzzyHash, ssdeep::LongDualFuzzyHash, rng);
    c06_family!(l, &short, ssdeep::RawFuzzyHash, ssdeep::FuzzyHash, ssdeep::DualFuzzyHash, rng);
    if !long.is_normalized() {
        l.nt(long.fp());
    }
    l.histn("max_run", model::long_runs(&long.bh1).iter().chain(model::long_runs(&long.bh2).iter()).map(|x| x.1).max().unwrap_or(0) as u64);
}

/// single-run layout: `pre` distinct symbols, run of `len` x `sym`, filled to `total`
fn single_run(total: usize, pos: usize, len: usize, sym: u8) -> Vec<u8> {
    let mut v = Vec::with_capacity(total);
    let other = |k: usize| -> u8 {
        let c = ((k % 61) + 1) as u8;
        if c == sym { 62 } else { c }
    };
    for k in 0..pos {
        v.push(other(k));
    }
    for _ in 0..len {
        v.push(sym);
    }
    let mut k = pos + len;
    while v.len() < total {
        v.push(other(k + 7));
        k += 1;
    }
    v
}

pub fn run_c06(o: &Opts) -> i32 {
    // every (position, run length) with position + length <= 64, symbols {0,1,63}
    let mut layouts: Vec<(usize, usize)> = Vec::new();
    for pos in 0..64 {
        for len in 1..=(64 - pos) {
            layouts.push((pos, len));
        }
    }
    let lref = &layouts;
    let n_lay = layouts.len() as u64;
    let mut two: Vec<(usize, usize, usize)> = Vec::new();
    for pre in 0..4 {
        for a in 1..=10 {
            for b in 1..=10 {
                if pre + a + b <= 20 {
                    two.push((pre, a, b));
                }
            }
        }
    }
    let tref = &two;
    let mut streams: Vec<Stream> = Vec::new();
    streams.push(Stream::new("single-run-layouts", n_lay * 3, move |i, rng: &mut Rng, l: &mut Local| {
        let (pos, len) = lref[(i / 3) as usize];
        let sym = [0u8, 1, 63][(i % 3) as usize];
        let total = if i % 2 == 0 { pos + len } else { (pos + len + 5).min(64) };
        let bh = single_run(total, pos, len, sym);
        // put the layout into block hash 1 and (cut to 64) into block hash 2
        let hv = HV { log: (i % 31) as u8, bh1: bh.clone(), bh2: bh };
        check_c06(l, &hv, rng);
        l.sample(|| J::obj().set("raw", J::s(hv.text())).set("normalized", J::s(hv.normalized().text())));
    }));
    // two adjacent runs, total length <= 20
    streams.push(Stream::new("two-adjacent-runs", two.len() as u64, move |i, rng: &mut Rng, l: &mut Local| {
        let (pre, a, b) = tref[i as usize];
        let mut bh: Vec<u8> = (0..pre).map(|k| (10 + k) as u8).collect();
        bh.extend(std::iter::repeat(0u8).take(a));
        bh.extend(std::iter::repeat(63u8).take(b));
        let hv = HV { log: 5, bh1: bh.clone(), bh2: bh };
        check_c06(l, &hv, rng);
    }));
    // the two block hashes are independent strings: k trailing symbols s in block hash 1 and m leading
    // symbols s in block hash 2 (k, m <= 3) never form a run together, for EVERY symbol s
    streams.push(Stream::new("boundary-between-block-hashes", 64 * 16, |i, rng: &mut Rng, l: &mut Local| {
        let s = (i / 16) as u8;
        let (k, m) = (((i % 16) / 4) as usize, (i % 4) as usize);
        let mut bh1: Vec<u8> = vec![(s + 1) % 64, (s + 2) % 64, (s + 3) % 64];
        bh1.extend(std::iter::repeat(s).take(k));
        let mut bh2: Vec<u8> = std::iter::repeat(s).take(m).collect();
        bh2.extend_from_slice(&[(s + 5) % 64, (s + 6) % 64]);
        let hv = HV { log: (i % 31) as u8, bh1, bh2 };
        check_c06(l, &hv, rng);
        // and with the run directly at the edges of otherwise empty block hashes
        let hv2 = HV { log: 0, bh1: std::iter::repeat(s).take(k).collect(), bh2: std::iter::repeat(s).take(m).collect() };
        check_c06(l, &hv2, rng);
        l.nt(0xB0_0000 + i);
    }));
    streams.push(Stream::new("random-multi-run", o.n(60_000, 5_000_000), |_i, rng: &mut Rng, l: &mut Local| {
        let hv = hashes::gen_hv(rng, 64, false);
        check_c06(l, &hv, rng);
    }));
    // parsing text directly into a normalizing type when the RAW text exceeds the capacity but its
    // run-collapse fits (default parser only; the strict parser refuses these by design)
    if !cfg!(feature = "ffstrict") {
        streams.push(Stream::new("overlong-raw-text-into-normalizing-type", o.n(40_000, 3_000_000), |_i, rng: &mut Rng, l: &mut Local| {
            let bh1 = hashes::gen_long_bh(rng, 64);
            let bh2 = hashes::gen_long_bh(rng, 32);
            let raw = HV { log: hashes::gen_log(rng), bh1, bh2 };
            let want = raw.normalized();
            if want.bh1.len() > 64 || want.bh2.len() > 64 || raw.bh1.len().max(raw.bh2.len()) > 700 {
                return;
            }
            let text = {
                let mut t = format!("{}:", 3u64 << raw.log).into_bytes();
                t.extend(hashes::syms_to_text(&raw.bh1));
                t.push(b':');
                t.extend(hashes::syms_to_text(&raw.bh2));
                t
            };
            let sig = |w: &str| format!("C06|overlong|{}|{}", w, String::from_utf8_lossy(&text));
            l.eval(1);
            match guard(|| ssdeep::LongFuzzyHash::from_bytes(&text)) {
                Ok(Ok(h)) => {
                    let st = h.stored();
                    l.check(st == want && h.is_valid(), "normalization-route", || (sig("long"), format!("parsing {} into LongFuzzyHash gives {} but collapsing runs to three gives {}", String::from_utf8_lossy(&text), st.text(), want.text())));
                }
                Ok(Err(e)) => l.violation("normalization-route", sig("long-rejected"), format!("LongFuzzyHash refuses {} ({:?}) although its run-collapse {} fits", String::from_utf8_lossy(&text), e, want.text())),
                Err(p) => l.violation("totality", sig("long-panic"), format!("parsing {} panicked: {}", String::from_utf8_lossy(&text), p)),
            }
            if want.bh2.len() <= 32 {
                l.eval(1);
                match guard(|| ssdeep::FuzzyHash::from_bytes(&text)) {
                    Ok(Ok(h)) => {
                        let st = h.stored();
                        l.check(st == want && h.is_valid(), "normalization-route", || (sig("short"), format!("parsing {} into FuzzyHash gives {} but collapsing runs to three gives {}", String::from_utf8_lossy(&text), st.text(), want.text())));
                    }
                    Ok(Err(e)) => l.violation("normalization-route", sig("short-rejected"), format!("FuzzyHash refuses {} ({:?}) although its run-collapse {} fits", String::from_utf8_lossy(&text), e, want.text())),
                    Err(p) => l.violation("totality", sig("short-panic"), format!("parsing {} panicked: {}", String::from_utf8_lossy(&text), p)),
                }
            }
            if raw.bh1.len() > 64 || raw.bh2.len() > 32 {
                l.nt(raw.fp());
                l.count("raw_longer_than_capacity", 1);
            }
        }));
    }
    let rr = run_streams(o, streams);
    finish(
        o,
        rr,
        Report {
            rule: "raw hashes: EVERY single-run layout (position x run length, 2080 layouts x symbols {0,1,63}, run ending at or before the capacity) in both block hashes and both capacities, every two-adjacent-run layout up to total length 20, every (symbol, k trailing in block hash 1, m leading in block hash 2) combination with k, m <= 3, random multi-run layouts (W3), and texts whose raw block hashes are longer than the capacity (up to ~200) while their run-collapse fits, parsed directly into the normalizing types. For each raw hash all routes - normalize(), normalize_in_place() (also twice and on a reused object), clone_normalized(), From<Raw>, from_raw_form(), parsing the text into the normalizing type, the normalized part of a dual built from the object, parsed from text and re-initialised in a reused dual object, normalizing twice - must equal the run-collapse oracle O4 by symbols, by full_eq against a freshly built object and by is_valid(); is_normalized() of raw, normalized and dual objects must equal (O4 leaves the string unchanged). evaluations = compared route results. Non-trivial = raw hash with a run longer than three; distinct by value.".into(),
            assumptions: vec![],
            exhaustive: false,
            min_nontrivial: 5000 * o.scale_pct / 100,
            extra: vec![("exhaustive_subspaces".into(), J::s("single-run layouts; two-adjacent-run layouts up to length 20"))],
        },
    )
}

// ------------------------------------------------------------------ C07

macro_rules! c07_family {
    ($l:expr, $raw:expr, $R:ty, $N:ty, $D:ty, $rng:expr) => {{
        let r: &HV = $raw;
        let dname = <$D as HashLike>::NAME;
        let sig = |w: &str| format!("C07|{}|{}|{}", dname, w, r.text());
        let want_norm = r.normalized();
        let res = guard(|| {
            let raw = <$R as HashLike>::build(r);
            // a dirty dual: holds another value with many RLE symbols
            let mut dirty = <$D>::from_raw_form(&<$R as HashLike>::build(&HV { log: 9, bh1: vec![7; 64], bh2: vec![9; <$R as HashLike>::S2] }));
            dirty.init_from_raw_form(&raw);
            // a second reused object: it held full-length block hashes without any run before
            let mut dirty2 = <$D>::from_raw_form(&<$R as HashLike>::build(&HV { log: 30, bh1: (0..64).map(|i| (63 - i) as u8).collect(), bh2: (0..<$R as HashLike>::S2).map(|i| (i as u8 * 3 + 1) % 64).collect() }));
            dirty2.init_from_raw_form(&raw);
            let duals: Vec<(&'static str, $D)> = vec![
                ("from_raw_form", <$D>::from_raw_form(&raw)),
                ("From<Raw>", <$D>::from(raw)),
                ("init_from_raw_form(dirty)", dirty),
                ("init_from_raw_form(dirty, previously full-length)", dirty2),
                ("new_from_internals", <$D>::new_from_internals(3u32 << r.log, &r.bh1, &r.bh2)),
                ("new_from_internals_near_raw", <$D>::new_from_internals_near_raw(r.log, &r.bh1, &r.bh2)),
                ("from_bytes(text)", <$D>::from_bytes(r.text().as_bytes()).expect("dual parser refused a valid raw text")),
                ("from_str(text)", r.text().parse::<$D>().expect("dual parser refused a valid raw text")),
            ];
            (raw, duals)
        });
        match res {
            Err(p) => $l.violation("totality", sig("panic"), format!("building duals of {} panicked: {}", r.text(), p)),
            Ok((raw, duals)) => {
                let norm_fresh = <$N as HashLike>::build(&want_norm);
                let first = duals[0].1;
                let h0 = hash_stream_of(&first);
                for (name, d) in duals.iter() {
                    $l.eval(1);
                    let checks = guard(|| {
                        let valid = d.is_valid();
                        let back = d.to_raw_form();
                        let mut dirty_raw = <$R as HashLike>::build(&HV { log: 1, bh1: vec![5; 64], bh2: vec![6; <$R as HashLike>::S2] });
                        d.into_mut_raw_form(&mut dirty_raw);
                        let lossless = back.full_eq(&raw) && back == raw && dirty_raw.full_eq(&raw) && dirty_raw.is_valid() && dirty_raw.cmp(&raw) == std::cmp::Ordering::Equal && text_of(&back) == r.text();
                        #[cfg(feature = "ffstd")]
                        let strings = d.to_raw_form_string() == r.text() && d.to_normalized_string() == want_norm.text() && format!("{}", d) == format!("{{{}|{}}}", want_norm.text(), r.text());
                        #[cfg(not(feature = "ffstd"))]
                        let strings = format!("{}", d) == format!("{{{}|{}}}", want_norm.text(), r.text());
                        let norm_ok = d.as_normalized().is_valid() && d.as_normalized().cmp(&norm_fresh) == std::cmp::Ordering::Equal && d.as_normalized().full_eq(&norm_fresh) && d.to_normalized().full_eq(&norm_fresh) && AsRef::<$N>::as_ref(d).full_eq(&norm_fresh);
                        let canon = *d == first && d.cmp(&first) == std::cmp::Ordering::Equal && hash_stream_of(d) == h0 && d.log_block_size() == r.log && d.block_size() as u64 == 3u64 << r.log;
                        let isn = d.is_normalized() == r.is_normalized();
                        (valid, lossless, strings, norm_ok, canon, isn)
                    });
                    match checks {
                        Err(p) => $l.violation("totality", sig(name), format!("dual built by {} from {} panicked when read back: {}", name, r.text(), p)),
                        Ok((valid, lossless, strings, norm_ok, canon, isn)) => {
                            $l.check(valid, "dual-valid", || (sig(&format!("{}-valid", name)), format!("dual built by {} from {} fails is_valid(): {:?}", name, r.text(), d)));
                            $l.check(lossless, "dual-lossless", || (sig(&format!("{}-lossless", name)), format!("dual built by {} from {} does not decompress to exactly that raw hash (to_raw_form / into_mut_raw_form on a reused object / text): {:?}", name, r.text(), d)));
                            $l.check(strings, "dual-strings", || (sig(&format!("{}-strings", name)), format!("dual built by {} from {}: to_raw_form_string / to_normalized_string / Display disagree with raw {} and normalized {}", name, r.text(), r.text(), want_norm.text())));
                            $l.check(norm_ok, "dual-normalized-part", || (sig(&format!("{}-norm", name)), format!("dual built by {} from {} exposes a normalized part different from {}", name, r.text(), want_norm.text())));
                            $l.check(canon, "dual-canonical", || (sig(&format!("{}-canonical", name)), format!("dual built by {} from {} is not equal / not ordered equal / not hashed equal to the one built by from_raw_form: {:?} vs {:?}", name, r.text(), d, first)));
                            $l.check(isn, "dual-is_normalized", || (sig(&format!("{}-isnorm", name)), format!("dual built by {} from {}: is_normalized() is wrong", name, r.text())));
                        }
                    }
                }
                // clearing the reverse-normalization data yields the dual of the normalized hash
                $l.eval(1);
                let cl = guard(|| {
                    let mut c = first;
                    c.normalize_in_place();
                    let a = <$D>::from_normalized(&norm_fresh);
                    let b = <$D>::from_raw_form(&norm_fresh.to_raw_form());
                    let e = <$D>::from(norm_fresh);
                    c == a && c == b && c == e && c.is_valid() && c.is_normalized() && c.to_raw_form().full_eq(&norm_fresh.to_raw_form()) && hash_stream_of(&c) == hash_stream_of(&a)
                });
                if !r.is_normalized() {
                    // the dual of a hash WITH long runs and the dual of its normalization share the
                    // normalized part but are different values: unequal, never ordered Equal, antisymmetric
                    $l.eval(1);
                    let df = guard(|| {
                        let n = <$D>::from_normalized(&norm_fresh);
                        (first != n, n != first, first.cmp(&n) != std::cmp::Ordering::Equal, n.cmp(&first) == first.cmp(&n).reverse(), hash_stream_of(&first) != hash_stream_of(&n) || true)
                    });
                    $l.check(df == Ok((true, true, true, true, true)), "dual-injective", || (sig("vs-normalized"), format!("the dual of {} and the dual of its normalization {} must be unequal and never ordered Equal: {:?}", r.text(), want_norm.text(), df)));
                }
                $l.check(cl == Ok(true), "dual-normalize_in_place", || (sig("normalize_in_place"), format!("normalize_in_place() on the dual of {} does not yield the dual of {} ({:?})", r.text(), want_norm.text(), cl)));
                // "only if": a raw that differs in exactly one run length (in block hash 1, and
                // separately in block hash 2) must give a different dual
                for which in 1..=2u8 {
                    let mut other = r.clone();
                    let cap = if which == 1 { 64 } else { <$R as HashLike>::S2 };
                    let bh = if which == 1 { &mut other.bh1 } else { &mut other.bh2 };
                    let runs = model::long_runs(bh);
                    if let Some(&(st, len)) = runs.last() {
                        let sym = bh[st];
                        if len > 4 {
                            bh.remove(st);
                        } else if bh.len() < cap {
                            bh.insert(st, sym);
                        }
                        if other != *r && other.normalized() == r.normalized() {
                            $l.eval(1);
                            let df = guard(|| {
                                let o = <$D>::from_raw_form(&<$R as HashLike>::build(&other));
                                let p = <$D>::from_bytes(other.text().as_bytes()).expect("dual parser refused a valid raw text");
                                (o != first, first != o, p != first, o.cmp(&first) != std::cmp::Ordering::Equal, first.cmp(&o) == o.cmp(&first).reverse(), *o.as_normalized() == *first.as_normalized(), o == p)
                            });
                            $l.check(df == Ok((true, true, true, true, true, true, true)), "dual-injective", || {
                                (sig(&format!("injective-bh{}", which)), format!("raw hashes {} and {} (same normalization, one run length in block hash {} differs) must give unequal, consistently ordered duals: {:?}", r.text(), other.text(), which, df))
                            });
                            $l.count("same_normalization_pairs", 1);
                        }
                    }
                }
            }
        }
    }};
}

pub fn check_c07(l: &mut Local, long: &HV, rng: &mut Rng) {
    let mut short = long.clone();
    short.bh2.truncate(32);
    c07_family!(l, long, ssdeep::LongRawFuzzyHash, ssdeep::LongFuzzyHash, ssdeep::LongDualFuzzyHash, rng);
    c07_family!(l, &short, ssdeep::RawFuzzyHash, ssdeep::FuzzyHash, ssdeep::DualFuzzyHash, rng);
    if !long.is_normalized() {
        l.nt(long.fp());
    }
    l.histn("rle_symbols_bh1", model::rle_symbols(&long.bh1) as u64);
    l.histn("rle_symbols_bh2_short", model::rle_symbols(&short.bh2) as u64);
}

pub fn run_c07(o: &Opts) -> i32 {
    let mut layouts: Vec<(usize, usize)> = Vec::new();
    for pos in 0..64 {
        for len in 4..=(64 - pos).max(3) {
            if pos + len <= 64 {
                layouts.push((pos, len));
            }
        }
    }
    let lref = &layouts;
    let mut streams: Vec<Stream> = Vec::new();
    // extreme layouts first (one case) so that clamped interpreter runs always drive the RLE
    // encoder/decoder to its limits: 16 / 8 RLE symbols, runs ending at the capacity, full RLE blocks
    streams.push(Stream::new("hostile-layouts", 1, |_i, rng: &mut Rng, l: &mut Local| {
        let mk = |parts: &[(u8, usize)]| -> Vec<u8> { parts.iter().flat_map(|&(s, n)| std::iter::repeat(s).take(n)).collect() };
        let cases: Vec<Vec<u8>> = vec![
            mk(&[(1, 64)]),
            mk(&[(1, 63)]),
            mk(&[(1, 4), (2, 4), (3, 4), (4, 4), (5, 4), (6, 4), (7, 4), (8, 4), (9, 4), (10, 4), (11, 4), (12, 4), (13, 4), (14, 4), (15, 4), (16, 4)]),
            mk(&[(9, 1), (1, 63)]),
            mk(&[(9, 3), (1, 61)]),
            mk(&[(1, 61), (9, 3)]),
            mk(&[(1, 32), (2, 32)]),
            mk(&[(0, 7), (63, 7), (0, 7), (63, 7), (0, 7), (63, 7), (0, 7), (63, 7), (0, 8)]),
            (0..64).map(|i| i as u8).collect(),
            vec![],
        ];
        for c in cases {
            let hv = HV { log: 30, bh1: c.clone(), bh2: c };
            check_c07(l, &hv, rng);
        }
    }));
    streams.push(Stream::new("every-run-4..64-at-every-position", layouts.len() as u64 * 2, move |i, rng: &mut Rng, l: &mut Local| {
        let (pos, len) = lref[(i / 2) as usize];
        let sym = if i % 2 == 0 { 0u8 } else { 37 };
        let total = if i % 4 < 2 { pos + len } else { (pos + len + 3).min(64) };
        let bh = single_run(total, pos, len, sym);
        let hv = HV { log: (i % 31) as u8, bh1: bh.clone(), bh2: bh };
        check_c07(l, &hv, rng);
        l.sample(|| J::obj().set("raw", J::s(hv.text())).set("rle_symbols", J::U(model::rle_symbols(&hv.bh1) as u64)));
    }));
    streams.push(Stream::new("several-runs", o.n(40_000, 4_000_000), |_i, rng: &mut Rng, l: &mut Local| {
        // 2..6 runs, the last one often ending exactly at the capacity
        let mut bh: Vec<u8> = Vec::new();
        let nruns = rng.urange(2, 6);
        let mut prev = 255u8;
        for _ in 0..nruns {
            let mut s = rng.below(64) as u8;
            if s == prev {
                s = (s + 1) % 64;
            }
            prev = s;
            let len = *rng.pick(&[1usize, 2, 3, 4, 5, 6, 7, 8, 9, 12, 16, 17, 20]);
            bh.extend(std::iter::repeat(s).take(len));
        }
        if rng.chance(1, 2) && bh.len() < 64 {
            let s = (prev + 1) % 64;
            let need = 64 - bh.len();
            bh.extend(std::iter::repeat(s).take(need));
        }
        bh.truncate(64);
        let bh2 = if rng.chance(1, 2) { bh.clone() } else { hashes::gen_bh(rng, 64) };
        let hv = HV { log: hashes::gen_log(rng), bh1: bh, bh2 };
        check_c07(l, &hv, rng);
    }));
    streams.push(Stream::new("random-w3", o.n(40_000, 4_000_000), |_i, rng: &mut Rng, l: &mut Local| {
        let hv = hashes::gen_hv(rng, 64, false);
        check_c07(l, &hv, rng);
    }));
    let rr = run_streams(o, streams);
    finish(
        o,
        rr,
        Report {
            rule: "raw hashes of both capacities: EVERY run length 4..64 at every position (1..16 RLE symbols), 2..6 runs with the last ending exactly at the capacity, random W3. For each raw hash r the duals built by from_raw_form, From<Raw>, init_from_raw_form on a dirty object, new_from_internals, new_from_internals_near_raw, from_bytes and from_str of its text must all be valid, pairwise ==, ordered Equal, identical under Hash (recording hasher), decompress to r by to_raw_form / into_mut_raw_form on a reused object / strings / Display, and expose full_eq the normalization of r; normalize_in_place() must give the dual of the normalized hash; a raw hash with the same normalization but one different run length must give an unequal dual. evaluations = duals checked. Non-trivial = raw hash with a run longer than three; distinct by value.".into(),
            assumptions: vec![],
            exhaustive: false,
            min_nontrivial: 5000 * o.scale_pct / 100,
            extra: vec![("exhaustive_subspaces".into(), J::s("single runs of length 4..64 at every position"))],
        },
    )
}

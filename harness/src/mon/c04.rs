//! C04 - parsing is total and accepts exactly the fuzzy-hash grammar (oracle O3).

use crate::ctx::{finish, guard, run_streams, Local, Opts, Report, Stream};
use crate::for_six_types;
use crate::json::{esc, hex, J};
use crate::oracle::model::{self, Field, Parsed, HV};
use crate::rng::{fnv64, Rng};
use crate::types::{stored_guarded, HashLike};
use crate::work::hashes;
use ssdeep::{ParseErrorInfo, ParseErrorOrigin};

pub const STRICT: bool = cfg!(feature = "ffstrict");
const SENTINEL: usize = 0xDEAD_BEEF;

fn origin_field(o: ParseErrorOrigin) -> Field {
    match o {
        ParseErrorOrigin::BlockSize => Field::BlockSize,
        ParseErrorOrigin::BlockHash1 => Field::BlockHash1,
        ParseErrorOrigin::BlockHash2 => Field::BlockHash2,
    }
}

/// outcome class of one type on one text: 0 accept, 1..3 reject at field
fn check_parse<T: HashLike>(l: &mut Local, t: &[u8]) -> u8 {
    let count_raw = STRICT || !T::NORM;
    let exp = model::parse(t, T::S2, count_raw, T::NORM);
    let sig = |api: &str| format!("C04|{}|{}|{}", T::NAME, api, hex(t));
    let mut apis: Vec<(&str, Result<(Result<T, ssdeep::ParseError>, usize), String>)> = Vec::new();
    apis.push(("from_bytes", guard(|| (T::parse_bytes(t), SENTINEL))));
    apis.push((
        "from_bytes_with_last_index",
        guard(|| {
            let mut idx = SENTINEL;
            let r = T::parse_idx(t, &mut idx);
            (r, idx)
        }),
    ));
    if let Ok(s) = std::str::from_utf8(t) {
        apis.push(("from_str", guard(|| (T::parse_str(s), SENTINEL))));
    }
    let mut class = 0u8;
    for (api, res) in apis {
        l.eval(1);
        match res {
            Err(p) => {
                l.violation("totality", sig(api), format!("{}::{} panicked on \"{}\": {}", T::NAME, api, esc(t), p));
                class = 9;
            }
            Ok((Ok(h), idx)) => match &exp {
                Parsed::Reject(f) => {
                    l.violation(
                        "accepts-exactly-grammar",
                        sig(api),
                        format!("{}::{} accepted \"{}\" but the grammar rejects it at {:?} (object valid={}, {:?})", T::NAME, api, esc(t), f, h.valid(), h),
                    );
                }
                Parsed::Accept { log, bh1, bh2, end } => {
                    if !l.check(h.valid(), "valid-object", || {
                        (sig(api), format!("{}::{} returned an object failing is_valid() for \"{}\": {:?}", T::NAME, api, esc(t), h))
                    }) {
                        continue;
                    }
                    match stored_guarded(&h) {
                        Err(p) => l.violation("totality", sig(api), format!("{}: reading back the parsed object of \"{}\" panicked: {}", T::NAME, esc(t), p)),
                        Ok(st) => {
                            let want = HV::new(*log, bh1, bh2);
                            l.check(st == want, "content", || {
                                (sig(api), format!("{}::{} of \"{}\" holds {} but the text decodes to {}", T::NAME, api, esc(t), st.text(), want.text()))
                            });
                            if T::DUAL {
                                let nv = h.norm_view();
                                l.check(nv == want.normalized(), "content", || {
                                    (sig(api), format!("{}::{} of \"{}\": normalized part is {} expected {}", T::NAME, api, esc(t), nv.text(), want.normalized().text()))
                                });
                            }
                        }
                    }
                    if api == "from_bytes_with_last_index" {
                        l.check(idx == *end, "end-index", || {
                            (sig(api), format!("{}::{} of \"{}\" reported end index {} expected {}", T::NAME, api, esc(t), idx, end))
                        });
                    }
                }
            },
            Ok((Err(e), idx)) => match &exp {
                Parsed::Accept { .. } => {
                    l.violation(
                        "accepts-exactly-grammar",
                        sig(api),
                        format!("{}::{} rejected \"{}\" ({:?}) but the grammar accepts it", T::NAME, api, esc(t), e),
                    );
                }
                Parsed::Reject(f) => {
                    class = match f {
                        Field::BlockSize => 1,
                        Field::BlockHash1 => 2,
                        Field::BlockHash2 => 3,
                    };
                    l.check(origin_field(e.origin()) == *f, "error-origin", || {
                        (sig(api), format!("{}::{} of \"{}\" blames {:?} but the offending part is {:?} ({:?})", T::NAME, api, esc(t), e.origin(), f, e))
                    });
                    l.check(idx == SENTINEL, "index-untouched", || {
                        (sig(api), format!("{}::{} of \"{}\" failed but changed the caller's index to {}", T::NAME, api, esc(t), idx))
                    });
                }
            },
        }
    }
    class
}

pub fn check_text(l: &mut Local, t: &[u8]) {
    let mut classes = [0u8; 6];
    let mut i = 0;
    for_six_types!(T => {
        let c = check_parse::<T>(l, t);
        classes[i] = c;
        l.hist("outcome", format!("{}:{}", T::NAME, ["accept", "reject@BlockSize", "reject@BlockHash1", "reject@BlockHash2", "", "", "", "", "", "panic"][c as usize]));
        i += 1;
    });
    // the string comparison function parses both sides into the long normalizing type: a failure must
    // be attributed to the side that failed, with the same error the parser itself gives
    #[cfg(feature = "ffstd")]
    if let Ok(ts) = std::str::from_utf8(t) {
        use ssdeep::{ParseErrorInfo, ParseErrorSide};
        const GOOD: &str = "6:abcdefgh:ijklmnop";
        let direct = guard(|| ts.parse::<ssdeep::LongFuzzyHash>());
        let both = guard(|| (ssdeep::compare(ts, GOOD), ssdeep::compare(GOOD, ts)));
        l.eval(2);
        match (direct, both) {
            (Ok(d), Ok((left, right))) => {
                let ok = match &d {
                    Ok(_) => left.is_ok() && right.is_ok(),
                    Err(e) => {
                        let same = |x: &Result<u32, ssdeep::ParseErrorEither>, side: ParseErrorSide| match x {
                            Err(pe) => pe.side() == side && pe.kind() == e.kind() && pe.origin() == e.origin() && pe.offset() == e.offset(),
                            Ok(_) => false,
                        };
                        same(&left, ParseErrorSide::Left) && same(&right, ParseErrorSide::Right)
                    }
                };
                l.check(ok, "compare-error-side", || {
                    (format!("C04|compare-side|{}", esc(t)), format!("compare(\"{}\", good) = {:?}, compare(good, same) = {:?}, but parsing that text as LongFuzzyHash gives {:?}", esc(t), left, right, d.as_ref().map(|_| "Ok")))
                });
            }
            (Err(p), _) | (_, Err(p)) => l.violation("totality", format!("C04|compare-side|panic|{}", esc(t)), format!("compare() / parse of \"{}\" panicked: {}", esc(t), p)),
        }
    }
    let acc = classes.iter().filter(|&&c| c == 0).count();
    let collapsed = match model::parse(t, 64, false, false) {
        Parsed::Accept { bh1, bh2, .. } => !model::is_normalized(&bh1) || !model::is_normalized(&bh2),
        _ => false,
    };
    if (acc > 0 && acc < 6) || (acc > 0 && collapsed) {
        l.nt(fnv64(t));
    }
    if model::raw_exceeds_capacity(t, 64) || model::raw_exceeds_capacity(t, 32) {
        l.count("raw_exceeds_capacity_but_normalized_fits", 1);
    }
    l.sample(|| J::obj().set("text", J::s(esc(t))).set("classes(F,R,LF,LR,D,LD)", J::s(format!("{:?}", classes))));
}

/// structured texts: prefix of p distinct symbols, run of r equal symbols, optional suffix
fn structured(i: u64) -> Option<Vec<u8>> {
    // variants: 0 => block hash 1 (cap 64), 1 => block hash 2 (cap 32), 2 => block hash 2 (cap 64)
    let mut i = i;
    for (variant, n) in [(0usize, 64usize), (1, 32), (2, 64)] {
        let per = ((n + 3) * (n + 13) * 3) as u64;
        if i < per {
            let suffix = (i % 3) as usize;
            let j = (i / 3) as usize;
            let p = j / (n + 13);
            let r = j % (n + 13);
            let mut bh: Vec<u8> = (0..p).map(|k| ((k % 63) + 1) as u8).collect();
            // avoid accidental runs in the prefix: symbols 1..63 cycling never repeat adjacent
            bh.extend(std::iter::repeat(0u8).take(r));
            for k in 0..suffix {
                bh.push((40 + k) as u8);
            }
            let other = b"abc".to_vec();
            let bht = hashes::syms_to_text(&bh);
            let mut t = b"3:".to_vec();
            if variant == 0 {
                t.extend(bht);
                t.push(b':');
                t.extend(other);
            } else {
                t.extend(other);
                t.push(b':');
                t.extend(bht);
            }
            if j % 5 == 0 {
                t.extend_from_slice(b",x");
            }
            return Some(t);
        }
        i -= per;
    }
    None
}
fn structured_count() -> u64 {
    [(64u64), 32, 64].iter().map(|n| (n + 3) * (n + 13) * 3).sum()
}

pub fn run(o: &Opts) -> i32 {
    let mut streams: Vec<Stream> = Vec::new();
    // the most hostile texts first (one case), so that clamped interpreter runs always see them
    streams.push(Stream::new("hostile-texts", 1, |_i, _rng: &mut Rng, l: &mut Local| {
        let a = |n: usize| "A".repeat(n);
        let texts: Vec<String> = vec![
            format!("3:abc:{}", a(32)),
            format!("3:abc:{}", a(33)),
            format!("3:abc:{}", a(35)),
            format!("3:abc:{}", a(36)),
            format!("3:abc:{}", a(64)),
            format!("3:abc:{}", a(65)),
            format!("3:abc:{}", a(68)),
            format!("3:abc:{}", a(200)),
            format!("3:{}:x", a(64)),
            format!("3:{}:x", a(65)),
            format!("3:{}:x", a(67)),
            format!("3:{}:x", a(68)),
            format!("3:{}:x", a(300)),
            format!("3:{}B{}:{}C{}", a(40), a(40), a(20), a(20)),
            format!("3221225472:{}:{}", "AAAB".repeat(16), "CCCD".repeat(8)),
            format!("3:{}:{},tail", "ABCD".repeat(16), "ABCD".repeat(8)),
        ];
        for t in texts {
            check_text(l, t.as_bytes());
        }
    }));
    streams.push(Stream::new("structured-runs", structured_count(), |i, _rng: &mut Rng, l: &mut Local| {
        if let Some(t) = structured(i) {
            check_text(l, &t);
        }
    }));
    streams.push(Stream::new("block-size-spellings", 4000, |i, rng: &mut Rng, l: &mut Local| {
        // every u32-ish spelling class around the valid sizes
        let n = (i % 33) as u32;
        let base: u64 = 3u64 << n;
        let v = match (i / 33) % 8 {
            0 => format!("{}", base),
            1 => format!("{}", base + 1),
            2 => format!("{}", base - 1),
            3 => format!("0{}", base),
            4 => format!("{}0", base),
            5 => format!("{}", base / 3),
            6 => format!("{}", rng.next() % 5_000_000_000),
            _ => format!("{}{}", base, rng.below(10)),
        };
        let mut t = v.into_bytes();
        t.extend_from_slice(b":AbCdEfG:hIjK");
        check_text(l, &t);
    }));
    streams.push(Stream::new("w5-texts", o.n(300_000, 20_000_000), |_i, rng: &mut Rng, l: &mut Local| {
        let t = hashes::gen_text(rng);
        check_text(l, &t);
    }));
    let rr = run_streams(o, streams);
    finish(
        o,
        rr,
        Report {
            rule: format!("texts: structured single-run layouts (every prefix/run length around both capacities, both block hashes), block-size spelling classes, W5 grammar-derived texts with raw block hashes of length 0..~200 and byte-level mutations; each text is parsed by all six types through from_bytes / from_bytes_with_last_index / FromStr and compared with recogniser O3 (capacity counted {}). evaluations = monitored parse calls. Non-trivial = text accepted by some but not all types, or accepted with a collapsed run; distinct by text.", if STRICT { "on the raw text for all types: strict parser" } else { "after run-collapsing for FuzzyHash/LongFuzzyHash, raw for raw and dual types" }),
            assumptions: vec!["oracle O3 is a correct reading of the grammar in the property statement".into()],
            exhaustive: false,
            min_nontrivial: 500 * o.scale_pct / 100,
            extra: vec![("strict_parser".into(), J::B(STRICT))],
        },
    )
}

//! Small helpers around the library API that work in every feature configuration.
#![allow(dead_code)]

use ssdeep::constraints::{
    BlockHashSize, BlockHashSizes, ConstrainedBlockHashSize, ConstrainedBlockHashSizes,
};
use ssdeep::{FuzzyHashData, GeneratorError};

/// text through the caller-buffer formatter (available without alloc in the library)
pub fn text_of<const S1: usize, const S2: usize, const N: bool>(h: &FuzzyHashData<S1, S2, N>) -> String
where
    BlockHashSize<S1>: ConstrainedBlockHashSize,
    BlockHashSize<S2>: ConstrainedBlockHashSize,
    BlockHashSizes<S1, S2>: ConstrainedBlockHashSizes,
{
    let mut buf = [0u8; 256];
    match h.store_into_bytes(&mut buf) {
        Ok(n) => String::from_utf8_lossy(&buf[..n]).into_owned(),
        Err(e) => format!("<store_into_bytes error {:?}>", e),
    }
}

pub fn res_text<const S1: usize, const S2: usize, const N: bool>(
    r: &Result<FuzzyHashData<S1, S2, N>, GeneratorError>,
) -> String
where
    BlockHashSize<S1>: ConstrainedBlockHashSize,
    BlockHashSize<S2>: ConstrainedBlockHashSize,
    BlockHashSizes<S1, S2>: ConstrainedBlockHashSizes,
{
    match r {
        Ok(h) => text_of(h),
        Err(e) => format!("Err({:?})", e),
    }
}

pub fn ref_text(r: &Result<String, crate::oracle::refctph::RefErr>) -> String {
    match r {
        Ok(s) => s.clone(),
        Err(e) => format!("RefErr({:?})", e),
    }
}

/// length of block hash 2 in a hash text
pub fn bh2_len(text: &str) -> usize {
    text.rsplit(':').next().map(|s| s.len()).unwrap_or(0)
}

pub fn block_index_of_text(text: &str) -> usize {
    let bs: u64 = text.split(':').next().and_then(|s| s.parse().ok()).unwrap_or(3);
    (bs / 3).trailing_zeros() as usize
}

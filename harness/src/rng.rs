//! Deterministic PRNG (SplitMix64 seeding + xoshiro256**).  No external crates.

#[derive(Clone)]
pub struct Rng {
    s: [u64; 4],
}

#[inline]
pub fn splitmix64(x: &mut u64) -> u64 {
    *x = x.wrapping_add(0x9E37_79B9_7F4A_7C15);
    let mut z = *x;
    z = (z ^ (z >> 30)).wrapping_mul(0xBF58_476D_1CE4_E5B9);
    z = (z ^ (z >> 27)).wrapping_mul(0x94D0_49BB_1331_11EB);
    z ^ (z >> 31)
}

/// FNV-1a 64 (used for fingerprints and for stream naming).
pub fn fnv64(data: &[u8]) -> u64 {
    let mut h: u64 = 0xcbf2_9ce4_8422_2325;
    for &b in data {
        h ^= b as u64;
        h = h.wrapping_mul(0x0000_0100_0000_01B3);
    }
    h
}

pub fn mix(a: u64, b: u64) -> u64 {
    let mut x = a ^ b.rotate_left(32) ^ 0xD6E8_FEB8_6659_FD93;
    let r = splitmix64(&mut x);
    r ^ splitmix64(&mut x)
}

impl Rng {
    pub fn new(seed: u64) -> Self {
        let mut x = seed;
        let s = [
            splitmix64(&mut x),
            splitmix64(&mut x),
            splitmix64(&mut x),
            splitmix64(&mut x),
        ];
        Rng { s }
    }
    /// Stream for (seed, property/stream name, case index).
    pub fn for_case(seed: u64, name: &str, index: u64) -> Self {
        Rng::new(mix(mix(seed, fnv64(name.as_bytes())), index))
    }
    #[inline]
    pub fn next(&mut self) -> u64 {
        let r = self.s[1].wrapping_mul(5).rotate_left(7).wrapping_mul(9);
        let t = self.s[1] << 17;
        self.s[2] ^= self.s[0];
        self.s[3] ^= self.s[1];
        self.s[1] ^= self.s[2];
        self.s[0] ^= self.s[3];
        self.s[2] ^= t;
        self.s[3] = self.s[3].rotate_left(45);
        r
    }
    /// Uniform in 0..n (n > 0).
    #[inline]
    pub fn below(&mut self, n: u64) -> u64 {
        debug_assert!(n > 0);
        ((self.next() as u128 * n as u128) >> 64) as u64
    }
    #[inline]
    pub fn usize_below(&mut self, n: usize) -> usize {
        self.below(n as u64) as usize
    }
    /// Uniform in lo..=hi.
    #[inline]
    pub fn range(&mut self, lo: u64, hi: u64) -> u64 {
        lo + self.below(hi - lo + 1)
    }
    #[inline]
    pub fn urange(&mut self, lo: usize, hi: usize) -> usize {
        self.range(lo as u64, hi as u64) as usize
    }
    #[inline]
    pub fn chance(&mut self, num: u64, den: u64) -> bool {
        self.below(den) < num
    }
    #[inline]
    pub fn byte(&mut self) -> u8 {
        (self.next() >> 56) as u8
    }
    pub fn fill(&mut self, buf: &mut [u8]) {
        let mut chunks = buf.chunks_exact_mut(8);
        for c in &mut chunks {
            c.copy_from_slice(&self.next().to_le_bytes());
        }
        let rem = chunks.into_remainder();
        if !rem.is_empty() {
            let v = self.next().to_le_bytes();
            let n = rem.len();
            rem.copy_from_slice(&v[..n]);
        }
    }
    pub fn pick<'a, T>(&mut self, v: &'a [T]) -> &'a T {
        &v[self.usize_below(v.len())]
    }
    /// log-uniform length in 0..=max
    pub fn log_len(&mut self, max: usize) -> usize {
        if max == 0 {
            return 0;
        }
        let bits = 64 - (max as u64).leading_zeros() as u64; // max < 2^bits
        let b = self.below(bits + 1); // 0..=bits
        let v = if b == 0 {
            0
        } else {
            (1u64 << (b - 1)) + self.below(1u64 << (b - 1))
        };
        (v as usize).min(max)
    }
    pub fn shuffle<T>(&mut self, v: &mut [T]) {
        for i in (1..v.len()).rev() {
            let j = self.usize_below(i + 1);
            v.swap(i, j);
        }
    }
}

//! vh: verification harness for a4lg/ffuzzy (runtime monitoring).
//! Usage: vh <c01..c20|transcript|miri-corpus|c18-child|selfcheck> [options]

#![allow(deprecated)]
#![allow(clippy::all)]

mod ctx;
mod json;
mod mon;
mod oracle;
mod rng;
mod types;
mod util;
mod work;

use ctx::{Opts, Tier};

fn usage() -> ! {
    eprintln!("usage: vh <cmd> [--tier quick|thorough] [--seed N] [--threads N] [--config NAME] [--out FILE] [--only STREAM:INDEX] [--scale PCT] [extra...]");
    std::process::exit(3);
}

fn main() {
    let args: Vec<String> = std::env::args().collect();
    if args.len() < 2 {
        usage();
    }
    let cmd = args[1].to_lowercase();
    let mut o = Opts {
        prop: cmd.clone(),
        tier: Tier::Quick,
        seed: 0,
        threads: std::thread::available_parallelism().map(|n| n.get()).unwrap_or(4),
        config: "default-relda".to_string(),
        out: None,
        only: None,
        scale_pct: 100,
        max_cases: 0,
        shard: (0, 1),
        skip: Vec::new(),
        trace_cases: false,
        extra: Vec::new(),
    };
    let mut i = 2;
    while i < args.len() {
        let a = args[i].as_str();
        let mut val = || {
            i += 1;
            args.get(i).cloned().unwrap_or_else(|| usage())
        };
        match a {
            "--tier" => {
                o.tier = match val().as_str() {
                    "quick" => Tier::Quick,
                    "thorough" => Tier::Thorough,
                    _ => usage(),
                }
            }
            "--seed" => o.seed = val().parse().unwrap_or_else(|_| usage()),
            "--threads" => o.threads = val().parse().unwrap_or_else(|_| usage()),
            "--config" => o.config = val(),
            "--out" => o.out = Some(val()),
            "--scale" => o.scale_pct = val().parse().unwrap_or_else(|_| usage()),
            "--max-cases" => o.max_cases = val().parse().unwrap_or_else(|_| usage()),
            "--shard" => {
                let v = val();
                let (a, b) = v.split_once('/').unwrap_or_else(|| usage());
                o.shard = (a.parse().unwrap_or_else(|_| usage()), b.parse().unwrap_or_else(|_| usage()));
                if o.shard.1 == 0 || o.shard.0 >= o.shard.1 {
                    usage();
                }
            }
            "--skip" => o.skip = val().split(',').map(|s| s.to_string()).collect(),
            "--trace-cases" => o.trace_cases = true,
            "--only" => {
                let v = val();
                let (s, n) = v.rsplit_once(':').unwrap_or_else(|| usage());
                o.only = Some((s.to_string(), n.parse().unwrap_or_else(|_| usage())));
            }
            other => o.extra.push(other.to_string()),
        }
        i += 1;
    }
    if o.max_cases > 0 {
        work::bytes::TINY.store(true, std::sync::atomic::Ordering::Relaxed);
    }
    ctx::install_panic_hook();
    let code = if cmd == "multi" {
        // multi props=c01,c03 outdir=DIR : several monitors in one process (Miri start-up is slow)
        let props = o.extra.iter().find_map(|e| e.strip_prefix("props=")).unwrap_or("").to_string();
        let outdir = o.extra.iter().find_map(|e| e.strip_prefix("outdir=")).unwrap_or(".").to_string();
        let mut worst = 0;
        for p in props.split(',').filter(|p| !p.is_empty()) {
            let mut oo = o.clone();
            oo.prop = p.to_string();
            oo.out = Some(format!("{}/{}-{}.json", outdir, p, o.config));
            eprintln!("MULTI begin {}", p);
            let c = mon::dispatch(p, &oo);
            eprintln!("MULTI end {} exit {}", p, c);
            worst = worst.max(c);
        }
        worst
    } else {
        mon::dispatch(&cmd, &o)
    };
    std::process::exit(code);
}

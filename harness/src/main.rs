//! vh: verification harness for a4lg/ffuzzy (runtime monitoring).
//! Usage: vh <c01..c20|transcript|miri-corpus|c18-child|selfcheck> [options]

#![allow(deprecated)]
#![allow(clippy::all)]

mod ctx;
mod json;
mod mon;
mod oracle;
mod rng;
mod types;
mod util;
mod work;

use ctx::{Opts, Tier};

fn usage() -> ! {
    eprintln!("usage: vh <cmd> [--tier quick|thorough] [--seed N] [--threads N] [--config NAME] [--out FILE] [--only STREAM:INDEX] [--scale PCT] [extra...]");
    std::process::exit(3);
}

fn main() {
    let args: Vec<String> = std::env::args().collect();
    if args.len() < 2 {
        usage();
    }
    let cmd = args[1].to_lowercase();
    let mut o = Opts {
        prop: cmd.clone(),
        tier: Tier::Quick,
        seed: 0,
        threads: std::thread::available_parallelism().map(|n| n.get()).unwrap_or(4),
        config: "default-relda".to_string(),
        out: None,
        only: None,
        scale_pct: 100,
        extra: Vec::new(),
    };
    let mut i = 2;
    while i < args.len() {
        let a = args[i].as_str();
        let mut val = || {
            i += 1;
            args.get(i).cloned().unwrap_or_else(|| usage())
        };
        match a {
            "--tier" => {
                o.tier = match val().as_str() {
                    "quick" => Tier::Quick,
                    "thorough" => Tier::Thorough,
                    _ => usage(),
                }
            }
            "--seed" => o.seed = val().parse().unwrap_or_else(|_| usage()),
            "--threads" => o.threads = val().parse().unwrap_or_else(|_| usage()),
            "--config" => o.config = val(),
            "--out" => o.out = Some(val()),
            "--scale" => o.scale_pct = val().parse().unwrap_or_else(|_| usage()),
            "--only" => {
                let v = val();
                let (s, n) = v.rsplit_once(':').unwrap_or_else(|| usage());
                o.only = Some((s.to_string(), n.parse().unwrap_or_else(|_| usage())));
            }
            other => o.extra.push(other.to_string()),
        }
        i += 1;
    }
    ctx::install_panic_hook();
    let code = mon::dispatch(&cmd, &o);
    std::process::exit(code);
}

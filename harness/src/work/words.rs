//! W2 table: 7-byte words whose rolling hash value r satisfies
//! (r+1) % (3<<k) == 0 and (r+1) % (3<<(k+1)) != 0 for level k (0..=30);
//! level 31: r == 0xffffffff; level 32: r == 0 with a non-zero window.
//! Produced once offline with z3; every entry is re-validated at start-up
//! against the definition (oracle O9), so the solver is not trusted.

use crate::oracle::naive::roll_of_window;

pub const WORDS: &[(&str, u32)] = &[
    ("f204773dd2d970", 0), ("f857f341f1ee14", 0), ("01020341f1a574", 0),
    ("f9fffef36470ff", 1), ("ff905080816cb1", 1), ("7f1079408170f1", 1),
    ("affee6cede1aa3", 2), ("67c03fc00870f1", 2), ("5fc0a7a0088091", 2),
    ("ebb9ad3cb7411d", 3), ("32c095815a40fe", 3), ("0a4149814ca8ef", 3),
    ("b1c2c41b99b54f", 4), ("b802784c480ed3", 4), ("db03684c480ed2", 4),
    ("65041f08c2d9fa", 5), ("47d613410240a2", 5), ("0bd61359024062", 5),
    ("d69dd8f8c6f9e9", 6), ("cd74e5c0584916", 6), ("0a94e140d8491c", 6),
    ("f7ee377eb58736", 7), ("ac2f0fb1889738", 7), ("d2ae49b15697db", 7),
    ("9c54061397ef99", 8), ("e188f8f0c6420b", 8), ("b9c1fde9a34261", 8),
    ("5ecd2cdccca58d", 9), ("2ceab4055fac82", 9), ("1c9518055ec003", 9),
    ("3722b07c6be69b", 10), ("e664dfa0482e31", 10), ("b580ecb068c532", 10),
    ("6f15f0db34b14c", 11), ("99a0bacb41b880", 11), ("653c0aeb4bc0c0", 11),
    ("46098a18f10153", 12), ("382e04cddb4002", 12), ("b42e05cdab4006", 12),
    ("a7823ea9e4e806", 13), ("bc08ff40542043", 13), ("cb30fe60542021", 13),
    ("120f9418c876dc", 14), ("1fd64ed02cf249", 14), ("2fd64ad42cf245", 14),
    ("b7fbd851b84de0", 15), ("a83175a09f9452", 15), ("f8314d609f9492", 15),
    ("9d09db0efc0383", 16), ("10cc08d43ce87f", 16), ("bcccaed43ce80f", 16),
    ("98f6830ddcc1c9", 17), ("a9a4fcd07840e9", 17), ("e6a4d9d07840eb", 17),
    ("adbdfee1d919cc", 18), ("c0a00520fc1550", 18), ("fdc0fd539ee0ee", 18),
    ("d9d2f5c8f0fafd", 19), ("8bc083e9da2074", 19), ("f901eaa8f94064", 19),
    ("010e73fb9f9b41", 20), ("cddb80dabca0fa", 20), ("0b683418f9ac27", 20),
    ("a5b8bef8fa146d", 21), ("0251a7d8fc0430", 21), ("f4c0fb5f1a20f4", 21),
    ("592eef9b9b0edc", 22), ("b85a723d589048", 22), ("93ba3b1d589260", 22),
    ("ebfb72be3b1981", 23), ("db4092bc7b02fd", 23), ("eec0a2bc7fd8a5", 23),
    ("edb90f1c7f89d1", 24), ("393c0e3f19a9c9", 24), ("7f2c0f18f9ae29", 24),
    ("04c418fe395b92", 25), ("df9df9d8fc93f9", 25), ("6f3d3d58fcc1f7", 25),
    ("cbfaf8fe3a7dce", 26), ("1a1d98fd59a51a", 26), ("982eff1f19841c", 26),
    ("440cff1abd0140", 27), ("fa107d5e3be34a", 27), ("5b8959de3dfc92", 27),
    ("d8f0f8fc7ff8a9", 28), ("0b163c7e3e082d", 28), ("ae80f9dd5b34e0", 28),
    ("e588f8f8f829e6", 29), ("67c8ff1f1c0eb8", 29), ("02ef1b9abde8aa", 29),
    ("e0d8fb99def25c", 30), ("17bc7b99d88004", 30), ("ecd8fd5f1c0870", 30), ("605d5d5d5f4354", 30),
    ("447e3b9e39a27f", 31), ("8b1f1c78fc0884", 31), ("547f1c79dc0885", 31),
    ("b9dc7abd5ee9fe", 32), ("823e3b98fdec9c", 32), ("e0fb9b98fb51e2", 32),
    // boundary quotients: per level the largest and the smallest rolling hash value
    // that ends a piece exactly at that level (r+1 == q_max*(3<<k) and r+1 == 3<<k)
    ("f9d8f9df1a3d2e", 0), ("ed5c79db9b00cf", 0),
    ("df98f8fb9c0000", 1), ("69d9d8fb9b0087", 1),
    ("62bf18fb9940b5", 2), ("a79f1c7c7cd5e1", 2),
    ("98f9dd5abc0725", 3), ("9e3f1e39df4a01", 3),
    ("89dc7ab8f83dfe", 4), ("04000000000100", 4),
    ("34fb99dabb008e", 5), ("6abc78fb9c1109", 5),
    ("7cff1f1e3ac480", 6), ("16bb9b9f1e0100", 6),
    ("655d58ff1c0083", 7), ("a0000000000007", 7),
    ("863f1f1b9885a0", 8), ("c2be39d9df6238", 8),
    ("179c79dab47bd2", 9), ("04000005a12800", 9),
    ("423d5f1d5defe0", 10), ("e71e3ab9dbc6d6", 10),
    ("e4f9d9df09d8b7", 11), ("4be48000007b00", 11),
    ("f07d5c7d5800bf", 12), ("abe0000000f7e8", 12),
    ("02b9d9dd77dec7", 13), ("bc80000492da09", 13),
    ("f799d8ff0fa7e0", 14), ("900000002e69ac", 14),
    ("615d5d5cdf86b2", 15), ("100000069c4344", 15),
    ("207e3d599ddf45", 16), ("42c6c7e19fdf8d", 16),
    ("80f8f8e87a00fb", 17), ("f7e7e7ecf1d9f7", 17),
    ("f8fb9ab0f91eee", 18), ("240002563f000f", 18),
    ("fdd8fae9d0f9f1", 19), ("6080002c7dd6c3", 19),
    ("29de3a99dd0000", 20), ("5525a17abf9066", 20),
    ("9ddab51b9ac000", 21), ("bc0000b8fc1b1a", 21),
    ("f0f8fcf8f0f7fe", 22), ("cac6cdde3c0837", 22),
    ("139d70fb994e8b", 23), ("7c00139b9e0000", 23),
    ("9a3c6abf1e0000", 24), ("e2c7cd58f97074", 24),
    ("231a1f1d5f0004", 25), ("0c033e3e3f0006", 25),
    ("e2b8bb9b9b1462", 26), ("ffe2f8f8f1dcf1", 26),
    ("d0e95d5abd0000", 27), ("ffecf8f9d0fded", 27),
    ("41571f1f1e0085", 28), ("dff2be3b9ded6b", 28),
    ("934f1c7c7c3018", 29), ("f2e8f9d9d0fbfd", 29),
    ("b5f9de3f1d0041", 30), ("769f18fe39a52f", 30),
];

pub const LEVEL_WRAP: usize = 31; // rolling hash == 0xffffffff
pub const LEVEL_ZERO: usize = 32; // rolling hash == 0, window not all zero

/// Returns Err(description) if any entry fails the definition.
pub fn words() -> Result<Vec<Vec<[u8; 7]>>, String> {
    let mut out = vec![vec![]; 33];
    for (hx, lv) in WORDS {
        let mut w = [0u8; 7];
        for i in 0..7 {
            w[i] = u8::from_str_radix(&hx[2 * i..2 * i + 2], 16).map_err(|e| e.to_string())?;
        }
        let r = roll_of_window(&w);
        let ok = match *lv {
            31 => r == u32::MAX,
            32 => r == 0 && w.iter().any(|&b| b != 0),
            k => {
                let v = r as u64 + 1;
                v % (3u64 << k) == 0 && (k >= 30 || v % (3u64 << (k + 1)) != 0)
            }
        };
        if !ok {
            return Err(format!("trigger word {} fails its definition at level {}", hx, lv));
        }
        out[*lv as usize].push(w);
    }
    for (k, v) in out.iter().enumerate() {
        if v.is_empty() {
            return Err(format!("no trigger word for level {}", k));
        }
    }
    Ok(out)
}

pub mod bytes;
pub mod words;

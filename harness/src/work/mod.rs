pub mod bytes;
pub mod hashes;
pub mod words;

//! W1/W2 byte-string workloads.
use crate::rng::Rng;

pub type Words = Vec<Vec<[u8; 7]>>;

/// content kinds of W1
pub const KINDS: [&str; 5] = ["uniform", "lowent", "periodic", "zeroheavy", "text"];

pub fn gen_kind(rng: &mut Rng, kind: usize, len: usize) -> Vec<u8> {
    let mut v = vec![0u8; len];
    match kind % 5 {
        0 => rng.fill(&mut v),
        1 => {
            let a = rng.range(2, 4) as u8;
            let base = rng.byte();
            rng.fill(&mut v);
            for b in v.iter_mut() {
                *b = base.wrapping_add(*b % a);
            }
        }
        2 => {
            let p = rng.urange(1, 40);
            let mut pat = vec![0u8; p];
            rng.fill(&mut pat);
            for (i, b) in v.iter_mut().enumerate() {
                *b = pat[i % p];
            }
        }
        3 => {
            rng.fill(&mut v);
            let mut r2 = rng.clone();
            for b in v.iter_mut() {
                if r2.below(10) != 0 {
                    *b = 0;
                }
            }
        }
        _ => {
            const T: &[u8] = b" etaoinshrdlu\nETAOIN.,0123456789";
            rng.fill(&mut v);
            for b in v.iter_mut() {
                *b = T[(*b as usize) % T.len()];
            }
        }
    }
    v
}

/// W1: random kind, log-uniform length
pub fn gen_w1(rng: &mut Rng, max_len: usize) -> Vec<u8> {
    let len = rng.log_len(max_len);
    let kind = rng.usize_below(5);
    gen_kind(rng, kind, len)
}

fn pw<'a>(rng: &mut Rng, words: &'a Words, lv: usize) -> &'a [u8] {
    let v: &'a Vec<[u8; 7]> = &words[lv];
    &v[rng.usize_below(v.len())][..]
}

pub const COUNTS: [usize; 14] = [1, 2, 30, 31, 32, 33, 34, 62, 63, 64, 65, 66, 100, 130];

/// W2: zero padding · (word at level k) × c ..., size placed near a block-size border.
/// Returns (input, nominal level).
pub fn gen_w2(rng: &mut Rng, words: &Words, max_pad: usize) -> (Vec<u8>, usize) {
    let k = if rng.chance(1, 6) { rng.usize_below(33) } else { rng.usize_below(31) };
    let mut body: Vec<u8> = Vec::new();
    let nseg = rng.urange(1, 4);
    for s in 0..nseg {
        let lv = if s == 0 || rng.chance(1, 2) {
            k
        } else {
            let d = rng.urange(0, 4);
            (k + d).saturating_sub(2).min(32)
        };
        let c = *rng.pick(&COUNTS);
        let sep = rng.usize_below(4);
        for _ in 0..c {
            body.extend_from_slice(pw(rng, words, lv));
            match sep {
                0 => {}
                1 => body.extend_from_slice(&[0u8; 7]),
                2 => {
                    let n = rng.urange(1, 12);
                    for _ in 0..n {
                        body.push(rng.byte());
                    }
                }
                _ => {
                    let n = rng.urange(7, 40);
                    body.extend(std::iter::repeat(0u8).take(n));
                }
            }
        }
    }
    // tail
    match rng.usize_below(7) {
        0 => {}
        1 => body.extend_from_slice(&[0u8; 7]),
        2 => body.extend_from_slice(pw(rng, words, super::words::LEVEL_ZERO)),
        3 => body.extend_from_slice(pw(rng, words, super::words::LEVEL_WRAP)),
        4 => {
            let n = rng.urange(1, 10);
            for _ in 0..n {
                body.push(rng.byte());
            }
        }
        5 => body.extend_from_slice(&[0u8; 3]),
        _ => body.extend_from_slice(pw(rng, words, k.min(30))),
    }
    // front padding so that the total size sits near 192*2^n
    let kk = k.min(30) as i64;
    let n = (kk + rng.range(0, 4) as i64 - 2).clamp(0, 40) as u32;
    let border = 192u128 << n;
    let delta = rng.range(0, 4) as i128 - 2;
    let target = border as i128 + delta;
    let pad = if target > body.len() as i128 && (target - body.len() as i128) <= max_pad as i128 {
        (target - body.len() as i128) as usize
    } else {
        rng.log_len(max_pad.min(1 << 16))
    };
    let mut v = Vec::with_capacity(pad + body.len());
    if rng.chance(1, 8) {
        // padding after the body instead: trailing zeros => roll == 0 at the end
        v.extend_from_slice(&body);
        v.extend(std::iter::repeat(0u8).take(pad));
    } else {
        v.extend(std::iter::repeat(0u8).take(pad));
        v.extend_from_slice(&body);
    }
    (v, k)
}

/// sizes on, below and above the border 192*2^n
pub fn border_sizes(n: u32) -> [u64; 5] {
    let b = 192u64 << n;
    [b - 2, b - 1, b, b + 1, b + 2]
}

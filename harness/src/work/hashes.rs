//! W3 block-hash strings, W4 hash pairs, W5 texts.
#![allow(dead_code)]

use crate::oracle::model::{b64chr, normalize, HV};
use crate::rng::Rng;

pub const RUN_LENS: [usize; 16] = [1, 1, 1, 2, 2, 3, 3, 4, 4, 5, 6, 7, 8, 11, 16, 33];

/// raw block hash symbols, length <= cap
pub fn gen_bh(rng: &mut Rng, cap: usize) -> Vec<u8> {
    let style = rng.usize_below(10);
    let mut v: Vec<u8> = Vec::new();
    match style {
        0 | 1 => {
            // random over an alphabet of size a
            let a = *rng.pick(&[1u64, 2, 3, 4, 16, 64, 64, 64]);
            let base = rng.below(64 - a + 1) as u8;
            let len = if rng.chance(1, 4) { cap } else { rng.urange(0, cap) };
            for _ in 0..len {
                v.push(base + rng.below(a) as u8);
            }
        }
        2 | 3 | 4 => {
            // run layout
            let a = *rng.pick(&[2u64, 3, 4, 64]);
            let target = if rng.chance(1, 3) { cap } else { rng.urange(0, cap) };
            let mut prev = 255u8;
            while v.len() < target {
                let mut s = rng.below(a) as u8 + if a < 64 { rng.below(60) as u8 * 0 } else { 0 };
                if s == prev {
                    s = (s + 1) % (a as u8).max(2);
                }
                prev = s;
                let mut l = *rng.pick(&RUN_LENS);
                if rng.chance(1, 20) {
                    l = rng.urange(1, 64);
                }
                let l = l.min(target - v.len());
                for _ in 0..l {
                    v.push(s);
                }
            }
        }
        5 => {
            // ascending alphabet
            let len = rng.urange(0, cap);
            let st = rng.below(64) as u8;
            for i in 0..len {
                v.push((st as usize + i) as u8 % 64);
            }
        }
        6 => {
            // something then a symbol-0 tail ('A's)
            let len = rng.urange(0, cap);
            let tail = rng.urange(0, len.min(6));
            for _ in 0..(len - tail) {
                v.push(rng.below(64) as u8);
            }
            for _ in 0..tail {
                v.push(0);
            }
        }
        7 => {
            // one long run somewhere
            let len = rng.urange(0, cap);
            for _ in 0..len {
                v.push(rng.below(64) as u8);
            }
            if len > 0 {
                let st = rng.usize_below(len);
                let l = rng.urange(1, len - st);
                let s = rng.below(64) as u8;
                for i in st..st + l {
                    v[i] = s;
                }
            }
        }
        8 => {
            // short (around the 7-gram threshold)
            let len = rng.urange(0, 9.min(cap));
            for _ in 0..len {
                v.push(rng.below(64) as u8);
            }
        }
        _ => {
            // full length, high entropy
            for _ in 0..cap {
                v.push(rng.below(64) as u8);
            }
        }
    }
    v.truncate(cap);
    v
}

/// normalized block hash symbols, length <= cap
pub fn gen_bh_norm(rng: &mut Rng, cap: usize) -> Vec<u8> {
    let mut v = normalize(&gen_bh(rng, cap));
    // refill to the target length sometimes so that long normalized strings are common
    if rng.chance(1, 2) {
        while v.len() < cap && rng.chance(15, 16) {
            let s = rng.below(64) as u8;
            let n = v.len();
            if n >= 3 && v[n - 1] == s && v[n - 2] == s && v[n - 3] == s {
                continue;
            }
            v.push(s);
        }
    }
    v
}

pub fn gen_log(rng: &mut Rng) -> u8 {
    match rng.below(8) {
        0 => rng.below(6) as u8,       // capping border region
        1 => 29 + rng.below(2) as u8,  // largest block sizes
        _ => rng.below(31) as u8,
    }
}

pub fn gen_hv(rng: &mut Rng, s2: usize, norm: bool) -> HV {
    let log = gen_log(rng);
    if norm {
        HV { log, bh1: gen_bh_norm(rng, 64), bh2: gen_bh_norm(rng, s2) }
    } else {
        HV { log, bh1: gen_bh(rng, 64), bh2: gen_bh(rng, s2) }
    }
}

fn edit(rng: &mut Rng, v: &mut Vec<u8>, cap: usize) {
    match rng.below(6) {
        0 => {
            if v.len() < cap {
                let p = rng.urange(0, v.len());
                v.insert(p, rng.below(64) as u8);
            }
        }
        1 => {
            if !v.is_empty() {
                let p = rng.usize_below(v.len());
                v.remove(p);
            }
        }
        2 => {
            if !v.is_empty() {
                let p = rng.usize_below(v.len());
                v[p] = rng.below(64) as u8;
            }
        }
        3 => {
            if !v.is_empty() {
                let k = rng.usize_below(v.len());
                v.rotate_left(k);
            }
        }
        4 => {
            // run insertion
            if !v.is_empty() && v.len() < cap {
                let p = rng.usize_below(v.len());
                let s = v[p];
                let l = rng.urange(1, (cap - v.len()).min(8));
                for _ in 0..l {
                    v.insert(p, s);
                }
            }
        }
        _ => {
            // truncate / cut a window
            if v.len() > 8 {
                let st = rng.usize_below(v.len() - 7);
                let l = rng.urange(7, v.len() - st);
                *v = v[st..st + l].to_vec();
            }
        }
    }
    v.truncate(cap);
}

/// W4: a second hash related to `a` (edits, crossing, block-size relation)
pub fn derive(rng: &mut Rng, a: &HV, s2: usize) -> HV {
    let mut b = a.clone();
    let mode = rng.below(10);
    match mode {
        0 => {
            // unrelated
            return gen_hv(rng, s2, false);
        }
        1 | 2 | 3 => {
            let k = rng.urange(1, 6);
            for _ in 0..k {
                if rng.chance(1, 2) {
                    edit(rng, &mut b.bh1, 64);
                } else {
                    edit(rng, &mut b.bh2, s2);
                }
            }
        }
        4 | 5 => {
            // crossing: b.bh1 ~ a.bh2, block size doubled
            if a.log < 30 {
                b.log = a.log + 1;
                b.bh1 = a.bh2.clone();
                b.bh2 = gen_bh(rng, s2);
                let k = rng.urange(0, 3);
                for _ in 0..k {
                    edit(rng, &mut b.bh1, 64);
                }
            }
        }
        6 => {
            // crossing the other way
            if a.log > 0 {
                b.log = a.log - 1;
                b.bh2 = a.bh1.clone();
                b.bh2.truncate(s2);
                b.bh1 = gen_bh(rng, 64);
                let k = rng.urange(0, 3);
                for _ in 0..k {
                    edit(rng, &mut b.bh2, s2);
                }
            }
        }
        7 => {
            // same content, other block size relation
            b.log = gen_log(rng);
        }
        8 => {
            // identical up to runs (same normalization)
            if !b.bh1.is_empty() && b.bh1.len() < 64 {
                let p = rng.usize_below(b.bh1.len());
                let s = b.bh1[p];
                let l = rng.urange(3, 6).min(64 - b.bh1.len());
                for _ in 0..l {
                    b.bh1.insert(p, s);
                }
            }
        }
        _ => {}
    }
    b.bh1.truncate(64);
    b.bh2.truncate(s2);
    b
}

/// W4 "chunk chains": two block hashes built from the same chunks of exactly L symbols (L around the
/// 7-gram threshold: 5, 6, 7, 8), with single-symbol separators inserted / omitted / replaced between
/// the chunks.  For L = 6 the strings have a long common subsequence but NO common 7-gram.
pub fn gen_chain_pair(rng: &mut Rng, cap_b: usize) -> (Vec<u8>, Vec<u8>) {
    let l = *rng.pick(&[6usize, 6, 6, 5, 7, 8]);
    let k = rng.urange(2, 64 / (l + 1));
    // distinct symbols for the chunks, separators from the rest of the alphabet
    let mut perm: Vec<u8> = (0..64).collect();
    rng.shuffle(&mut perm);
    let chunk_syms = &perm[..(k * l).min(56)];
    let seps = &perm[56..];
    let mut a: Vec<u8> = Vec::new();
    let mut b: Vec<u8> = Vec::new();
    let mode = rng.below(4);
    for c in 0..k {
        for j in 0..l {
            let s = chunk_syms[(c * l + j) % chunk_syms.len()];
            a.push(s);
            b.push(s);
        }
        if c + 1 < k {
            match mode {
                0 => a.push(seps[c % seps.len()]),                       // separator only in a
                1 => b.push(seps[c % seps.len()]),                       // separator only in b
                2 => {
                    // alternating sides
                    if c % 2 == 0 {
                        a.push(seps[c % seps.len()]);
                    } else {
                        b.push(seps[c % seps.len()]);
                    }
                }
                _ => {
                    // different separators on both sides (substitution)
                    a.push(seps[c % seps.len()]);
                    b.push(seps[(c + 1) % seps.len()]);
                }
            }
        }
    }
    a.truncate(64);
    b.truncate(cap_b);
    (a, b)
}

pub fn syms_to_text(v: &[u8]) -> Vec<u8> {
    v.iter().map(|&c| b64chr(c)).collect()
}

/// block-size spelling classes
pub fn gen_block_size_text(rng: &mut Rng) -> Vec<u8> {
    match rng.below(36) {
        0 => b"".to_vec(),
        1 => format!("0{}", 3u64 << rng.below(31)).into_bytes(), // leading zero
        2 => b"0".to_vec(),
        3 => format!("{}", rng.below(5_000_000_000)).into_bytes(), // mostly invalid
        4 => format!("{}", (3u64 << rng.below(31)) + 1).into_bytes(),
        5 => format!("{}", 3u64 << (31 + rng.below(4))).into_bytes(), // 3*2^31.. > u32
        6 => b"99999999999999999999999999".to_vec(),
        7 => format!("{}", 1u64 << rng.below(33)).into_bytes(), // power of two, not 3*2^n
        8 => format!("+{}", 3u64 << rng.below(31)).into_bytes(),
        10 => {
            // arithmetic wrap-around candidates: k*2^32 + valid size, k*2^64 + valid size (19..21 digits)
            let v = 3u128 << rng.below(31);
            let k = 1 + rng.below(9) as u128;
            let w = if rng.chance(1, 2) { 1u128 << 64 } else { 1u128 << 32 };
            format!("{}", k * w + v).into_bytes()
        }
        11 => {
            // 18..22 digit numbers around 2^63 / 2^64 / 10^19 / 10^20
            let base: u128 = *rng.pick(&[1u128 << 63, 1u128 << 64, 10u128.pow(19), 10u128.pow(20), 10u128.pow(18), u64::MAX as u128, 99_999_999_999_999_999_999u128]);
            let d = rng.below(7) as u128;
            format!("{}", base + d - 3.min(base)).into_bytes()
        }
        9 => format!("{} ", 3u64 << rng.below(31)).into_bytes(),
        _ => format!("{}", 3u64 << gen_log(rng)).into_bytes(),
    }
}

/// raw block hash text of length 0..~200, including "raw too long, normalized fits"
pub fn gen_long_bh(rng: &mut Rng, cap: usize) -> Vec<u8> {
    match rng.below(8) {
        0 | 1 | 2 => gen_bh(rng, cap),
        3 => {
            // normalized fits (<= cap) but raw exceeds: stretch runs
            let mut v = gen_bh_norm(rng, cap);
            if v.is_empty() {
                v.push(rng.below(64) as u8);
            }
            let want = cap + rng.urange(1, 40);
            let mut guard = 0;
            while v.len() < want && guard < 400 {
                guard += 1;
                let p = rng.usize_below(v.len());
                let s = v[p];
                // make it a run of >= 4 so that normalization removes the surplus
                let l = rng.urange(3, 12);
                for _ in 0..l {
                    v.insert(p, s);
                }
            }
            v
        }
        4 => {
            // single run of length around the capacity
            let s = rng.below(64) as u8;
            let l = (cap as i64 + rng.range(0, 24) as i64 - 8).max(0) as usize;
            let pre = rng.urange(0, 5);
            let mut v: Vec<u8> = (0..pre).map(|i| (s + 1 + i as u8) % 64).collect();
            v.extend(std::iter::repeat(s).take(l));
            v
        }
        5 => {
            // longer than capacity even after normalization
            let l = cap + rng.urange(1, 30);
            (0..l).map(|i| ((i * 7 + 3) % 64) as u8).collect()
        }
        6 => {
            if rng.chance(1, 3) {
                // a very long run (the counters that track runs must not wrap): 250..600 symbols
                let s = rng.below(64) as u8;
                let l = rng.urange(250, 600);
                let pre = rng.urange(0, 3);
                let mut v: Vec<u8> = (0..pre).map(|i| (s + 1 + i as u8) % 64).collect();
                v.extend(std::iter::repeat(s).take(l));
                if rng.chance(1, 2) {
                    v.push((s + 7) % 64);
                }
                v
            } else {
                let l = rng.urange(0, 200);
                (0..l).map(|_| rng.below(4) as u8).collect()
            }
        }
        _ => {
            let l = rng.urange(cap.saturating_sub(3), cap + 3);
            (0..l).map(|_| rng.below(64) as u8).collect()
        }
    }
}

const NOISE: &[u8] = b":,:,:, \t\n\r-_=*.@!#$%^&()[]{}<>?~`'\"\\|;\x00\x7f\x80\xff\xc3\xa9";

/// W5: grammar-derived text, possibly mutated
pub fn gen_text(rng: &mut Rng) -> Vec<u8> {
    if rng.chance(1, 40) {
        // pure random bytes
        let n = rng.urange(0, 40);
        return (0..n).map(|_| rng.byte()).collect();
    }
    let s2 = if rng.chance(1, 2) { 32 } else { 64 };
    let mut t = gen_block_size_text(rng);
    t.push(b':');
    t.extend(syms_to_text(&gen_long_bh(rng, 64)));
    t.push(b':');
    t.extend(syms_to_text(&gen_long_bh(rng, s2)));
    match rng.below(6) {
        0 => {
            t.push(b',');
        }
        1 => {
            t.push(b',');
            let n = rng.urange(0, 20);
            for _ in 0..n {
                t.push(rng.byte());
            }
        }
        2 => {
            t.extend_from_slice(b",\"file name, with:colon\"");
        }
        _ => {}
    }
    // mutations
    let nm = match rng.below(10) {
        0..=5 => 0,
        6 | 7 => 1,
        8 => 2,
        _ => rng.urange(1, 5),
    };
    for _ in 0..nm {
        let c = if rng.chance(2, 3) { *rng.pick(NOISE) } else { rng.byte() };
        match rng.below(5) {
            0 => {
                let p = rng.urange(0, t.len());
                t.insert(p, c);
            }
            1 => {
                if !t.is_empty() {
                    let p = rng.usize_below(t.len());
                    t.remove(p);
                }
            }
            2 => {
                if !t.is_empty() {
                    let p = rng.usize_below(t.len());
                    t[p] = c;
                }
            }
            3 => {
                let p = rng.urange(0, t.len());
                t.truncate(p);
            }
            _ => {
                // mutate near a separator
                if let Some(p) = t.iter().position(|&x| x == b':') {
                    let q = (p + rng.urange(0, 2)).min(t.len());
                    t.insert(q, c);
                }
            }
        }
    }
    t
}

//! Minimal JSON value + writer (no serde).
use std::collections::BTreeMap;
use std::fmt::Write;

#[derive(Clone, Debug)]
pub enum J {
    Null,
    B(bool),
    I(i64),
    U(u64),
    F(f64),
    S(String),
    A(Vec<J>),
    O(Vec<(String, J)>),
}

impl J {
    pub fn s(x: impl Into<String>) -> J {
        J::S(x.into())
    }
    pub fn obj() -> J {
        J::O(Vec::new())
    }
    pub fn set(mut self, k: &str, v: J) -> J {
        if let J::O(ref mut m) = self {
            m.push((k.to_string(), v));
        }
        self
    }
    pub fn put(&mut self, k: &str, v: J) {
        if let J::O(ref mut m) = self {
            m.push((k.to_string(), v));
        }
    }
    pub fn from_map(m: &BTreeMap<String, u64>) -> J {
        J::O(m.iter().map(|(k, v)| (k.clone(), J::U(*v))).collect())
    }
    pub fn write(&self, out: &mut String) {
        match self {
            J::Null => out.push_str("null"),
            J::B(b) => out.push_str(if *b { "true" } else { "false" }),
            J::I(i) => {
                let _ = write!(out, "{}", i);
            }
            J::U(u) => {
                let _ = write!(out, "{}", u);
            }
            J::F(f) => {
                if f.is_finite() {
                    let _ = write!(out, "{:.3}", f);
                } else {
                    out.push_str("null");
                }
            }
            J::S(s) => write_str(out, s),
            J::A(v) => {
                out.push('[');
                for (i, x) in v.iter().enumerate() {
                    if i > 0 {
                        out.push(',');
                    }
                    x.write(out);
                }
                out.push(']');
            }
            J::O(m) => {
                out.push('{');
                for (i, (k, v)) in m.iter().enumerate() {
                    if i > 0 {
                        out.push(',');
                    }
                    write_str(out, k);
                    out.push(':');
                    v.write(out);
                }
                out.push('}');
            }
        }
    }
    pub fn to_string(&self) -> String {
        let mut s = String::new();
        self.write(&mut s);
        s
    }
}

fn write_str(out: &mut String, s: &str) {
    out.push('"');
    for c in s.chars() {
        match c {
            '"' => out.push_str("\\\""),
            '\\' => out.push_str("\\\\"),
            '\n' => out.push_str("\\n"),
            '\r' => out.push_str("\\r"),
            '\t' => out.push_str("\\t"),
            c if (c as u32) < 0x20 => {
                let _ = write!(out, "\\u{:04x}", c as u32);
            }
            c => out.push(c),
        }
    }
    out.push('"');
}

pub fn hex(b: &[u8]) -> String {
    let mut s = String::with_capacity(b.len() * 2);
    for x in b {
        let _ = write!(s, "{:02x}", x);
    }
    s
}

/// printable rendering of arbitrary bytes (for texts)
pub fn esc(b: &[u8]) -> String {
    let mut s = String::new();
    for &x in b {
        if (0x20..0x7f).contains(&x) && x != b'\\' {
            s.push(x as char);
        } else {
            let _ = write!(s, "\\x{:02x}", x);
        }
    }
    s
}

/// hex prefix + length description of a long input
pub fn bytes_desc(b: &[u8]) -> J {
    let n = b.len().min(48);
    J::obj()
        .set("len", J::U(b.len() as u64))
        .set("hex_prefix", J::s(hex(&b[..n])))
        .set("fnv64", J::s(format!("{:016x}", crate::rng::fnv64(b))))
}

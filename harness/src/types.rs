//! Uniform view of the six hash types for the monitors.
#![allow(dead_code)]

use crate::ctx::guard;
use crate::oracle::model::HV;
use ssdeep::{
    DualFuzzyHash, FuzzyHash, LongDualFuzzyHash, LongFuzzyHash, LongRawFuzzyHash, ParseError,
    RawFuzzyHash,
};

pub trait HashLike: Sized + Clone + core::fmt::Debug + PartialEq + Eq + Ord + core::hash::Hash {
    const NAME: &'static str;
    const S2: usize;
    /// the type stores (only) a normalized form
    const NORM: bool;
    const DUAL: bool;
    fn parse_bytes(b: &[u8]) -> Result<Self, ParseError>;
    fn parse_idx(b: &[u8], idx: &mut usize) -> Result<Self, ParseError>;
    fn parse_str(s: &str) -> Result<Self, ParseError>;
    fn valid(&self) -> bool;
    fn log(&self) -> u8;
    /// the value the type *stores* (raw for raw/dual types, normalized for normalizing types)
    fn stored(&self) -> HV;
    /// the normalized view
    fn norm_view(&self) -> HV;
    fn is_norm(&self) -> bool;
    /// construct from an abstract value through the public checked constructor
    fn build(v: &HV) -> Self;
    /// text of the stored value (through store_into_bytes; dual: of the raw form)
    fn text(&self) -> String;
    /// same value, but written over an object that held a longer, different value before
    fn build_dirty(v: &HV) -> Self;
    /// same value, produced by a *conversion* into a destination that held a longer, different
    /// value before (None when no such conversion exists for this value)
    fn build_conv(_v: &HV, _which: u64) -> Option<Self> {
        None
    }
    /// the array / length accessors describe the same content as the slice accessors
    /// (tail of the arrays zero); None when consistent, else a description
    fn accessors_inconsistent(&self) -> Option<String> {
        None
    }
}

macro_rules! impl_plain {
    ($t:ty, $name:expr, $s2:expr, $norm:expr) => {
        impl HashLike for $t {
            const NAME: &'static str = $name;
            const S2: usize = $s2;
            const NORM: bool = $norm;
            const DUAL: bool = false;
            fn parse_bytes(b: &[u8]) -> Result<Self, ParseError> {
                <$t>::from_bytes(b)
            }
            fn parse_idx(b: &[u8], idx: &mut usize) -> Result<Self, ParseError> {
                <$t>::from_bytes_with_last_index(b, idx)
            }
            fn parse_str(s: &str) -> Result<Self, ParseError> {
                s.parse::<$t>()
            }
            fn valid(&self) -> bool {
                self.is_valid()
            }
            fn log(&self) -> u8 {
                self.log_block_size()
            }
            fn stored(&self) -> HV {
                HV::new(self.log_block_size(), self.block_hash_1(), self.block_hash_2())
            }
            fn norm_view(&self) -> HV {
                let n = self.normalize();
                HV::new(n.log_block_size(), n.block_hash_1(), n.block_hash_2())
            }
            fn is_norm(&self) -> bool {
                self.is_normalized()
            }
            fn build(v: &HV) -> Self {
                <$t>::new_from_internals_near_raw(v.log, &v.bh1, &v.bh2)
            }
            fn text(&self) -> String {
                crate::util::text_of(self)
            }
            fn accessors_inconsistent(&self) -> Option<String> {
                let (a1, a2) = (self.block_hash_1_as_array(), self.block_hash_2_as_array());
                let (l1, l2) = (self.block_hash_1_len(), self.block_hash_2_len());
                let ok = l1 <= a1.len()
                    && l2 <= a2.len()
                    && l1 == self.block_hash_1().len()
                    && l2 == self.block_hash_2().len()
                    && a1[..l1] == *self.block_hash_1()
                    && a2[..l2] == *self.block_hash_2()
                    && a1[l1..].iter().all(|&c| c == 0)
                    && a2[l2..].iter().all(|&c| c == 0)
                    && self.block_size() as u64 == 3u64 << self.log_block_size();
                if ok {
                    None
                } else {
                    Some(format!("lengths {} / {}, arrays {:?} / {:?}, slices {:?} / {:?}, block size {} (log {})", l1, l2, a1, a2, self.block_hash_1(), self.block_hash_2(), self.block_size(), self.log_block_size()))
                }
            }
            fn build_conv(v: &HV, which: u64) -> Option<Self> {
                use std::any::Any;
                // dispatch on the concrete type (the conversions are not generic over the capacity)
                let r: Option<Box<dyn Any>> = match $name {
                    "FuzzyHash" => conv_short_norm(v, which).map(|x| Box::new(x) as Box<dyn Any>),
                    "RawFuzzyHash" => conv_short_raw(v, which).map(|x| Box::new(x) as Box<dyn Any>),
                    "LongFuzzyHash" => conv_long_norm(v, which).map(|x| Box::new(x) as Box<dyn Any>),
                    _ => conv_long_raw(v, which).map(|x| Box::new(x) as Box<dyn Any>),
                };
                r.and_then(|b| b.downcast::<$t>().ok()).map(|b| *b)
            }
            fn build_dirty(v: &HV) -> Self {
                let mut d = <$t>::new_from_internals_near_raw(30, &[61, 62, 63].repeat(21), &[63, 62, 61].repeat($s2 / 3));
                let mut a1 = [0u8; 64];
                let mut a2 = [0u8; $s2];
                a1[..v.bh1.len()].copy_from_slice(&v.bh1);
                a2[..v.bh2.len()].copy_from_slice(&v.bh2);
                d.init_from_internals_raw(v.log, &a1, &a2, v.bh1.len() as u8, v.bh2.len() as u8);
                d
            }
        }
    };
}
impl_plain!(FuzzyHash, "FuzzyHash", 32, true);
impl_plain!(RawFuzzyHash, "RawFuzzyHash", 32, false);
impl_plain!(LongFuzzyHash, "LongFuzzyHash", 64, true);
impl_plain!(LongRawFuzzyHash, "LongRawFuzzyHash", 64, false);

macro_rules! impl_dual {
    ($t:ty, $name:expr, $s2:expr) => {
        impl HashLike for $t {
            const NAME: &'static str = $name;
            const S2: usize = $s2;
            const NORM: bool = false;
            const DUAL: bool = true;
            fn parse_bytes(b: &[u8]) -> Result<Self, ParseError> {
                <$t>::from_bytes(b)
            }
            fn parse_idx(b: &[u8], idx: &mut usize) -> Result<Self, ParseError> {
                <$t>::from_bytes_with_last_index(b, idx)
            }
            fn parse_str(s: &str) -> Result<Self, ParseError> {
                s.parse::<$t>()
            }
            fn valid(&self) -> bool {
                self.is_valid()
            }
            fn log(&self) -> u8 {
                self.log_block_size()
            }
            fn stored(&self) -> HV {
                let r = self.to_raw_form();
                HV::new(r.log_block_size(), r.block_hash_1(), r.block_hash_2())
            }
            fn norm_view(&self) -> HV {
                let n = self.as_normalized();
                HV::new(n.log_block_size(), n.block_hash_1(), n.block_hash_2())
            }
            fn is_norm(&self) -> bool {
                self.is_normalized()
            }
            fn build(v: &HV) -> Self {
                <$t>::new_from_internals_near_raw(v.log, &v.bh1, &v.bh2)
            }
            fn text(&self) -> String {
                crate::util::text_of(&self.to_raw_form())
            }
            fn build_dirty(v: &HV) -> Self {
                let mut d = <$t>::new_from_internals_near_raw(30, &[9u8; 64], &[8u8; $s2]);
                let raw = ssdeep::FuzzyHashData::<64, $s2, false>::new_from_internals_near_raw(v.log, &v.bh1, &v.bh2);
                d.init_from_raw_form(&raw);
                d
            }
        }
    };
}
impl_dual!(DualFuzzyHash, "DualFuzzyHash", 32);
impl_dual!(LongDualFuzzyHash, "LongDualFuzzyHash", 64);

/// stored() under the totality monitor (the dual expansion can panic on a corrupted object)
pub fn stored_guarded<T: HashLike>(h: &T) -> Result<HV, String> {
    guard(|| h.stored())
}

/// expands to the body once per hash type, with `$T` bound to the type
#[macro_export]
macro_rules! for_six_types {
    ($T:ident => $body:block) => {{
        { type $T = ssdeep::FuzzyHash; $body }
        { type $T = ssdeep::RawFuzzyHash; $body }
        { type $T = ssdeep::LongFuzzyHash; $body }
        { type $T = ssdeep::LongRawFuzzyHash; $body }
        { type $T = ssdeep::DualFuzzyHash; $body }
        { type $T = ssdeep::LongDualFuzzyHash; $body }
    }};
}
#[macro_export]
macro_rules! for_plain_types {
    ($T:ident => $body:block) => {{
        { type $T = ssdeep::FuzzyHash; $body }
        { type $T = ssdeep::RawFuzzyHash; $body }
        { type $T = ssdeep::LongFuzzyHash; $body }
        { type $T = ssdeep::LongRawFuzzyHash; $body }
    }};
}

// ---- conversion-built values into dirty destinations (used by C16)

fn dirty_long<const N: bool>() -> ssdeep::FuzzyHashData<64, 64, N> {
    ssdeep::FuzzyHashData::<64, 64, N>::new_from_internals_near_raw(29, &[60, 61, 62].repeat(21), &[63, 62, 61].repeat(21))
}
fn dirty_short<const N: bool>() -> ssdeep::FuzzyHashData<64, 32, N> {
    ssdeep::FuzzyHashData::<64, 32, N>::new_from_internals_near_raw(29, &[60, 61, 62].repeat(21), &[63, 62, 61].repeat(10))
}

pub fn conv_long_norm(v: &HV, which: u64) -> Option<LongFuzzyHash> {
    match which % 3 {
        0 if v.bh2.len() <= 32 => {
            let s = FuzzyHash::new_from_internals_near_raw(v.log, &v.bh1, &v.bh2);
            let mut d = dirty_long::<true>();
            s.into_mut_long_form(&mut d);
            Some(d)
        }
        1 => {
            let mut raw = dirty_long::<false>();
            LongFuzzyHash::new_from_internals_near_raw(v.log, &v.bh1, &v.bh2).into_mut_raw_form(&mut raw);
            Some(raw.normalize())
        }
        _ => None,
    }
}
pub fn conv_long_raw(v: &HV, which: u64) -> Option<LongRawFuzzyHash> {
    match which % 3 {
        0 if v.bh2.len() <= 32 => {
            let s = RawFuzzyHash::new_from_internals_near_raw(v.log, &v.bh1, &v.bh2);
            let mut d = dirty_long::<false>();
            s.into_mut_long_form(&mut d);
            Some(d)
        }
        1 => {
            let dual = LongDualFuzzyHash::new_from_internals_near_raw(v.log, &v.bh1, &v.bh2);
            let mut d = dirty_long::<false>();
            dual.into_mut_raw_form(&mut d);
            Some(d)
        }
        _ => {
            if crate::oracle::model::is_normalized(&v.bh1) && crate::oracle::model::is_normalized(&v.bh2) {
                let mut d = dirty_long::<false>();
                LongFuzzyHash::new_from_internals_near_raw(v.log, &v.bh1, &v.bh2).into_mut_raw_form(&mut d);
                Some(d)
            } else {
                None
            }
        }
    }
}
pub fn conv_short_norm(v: &HV, which: u64) -> Option<FuzzyHash> {
    match which % 2 {
        0 => {
            let l = LongFuzzyHash::new_from_internals_near_raw(v.log, &v.bh1, &v.bh2);
            let mut d = dirty_short::<true>();
            l.try_into_mut_short(&mut d).ok()?;
            Some(d)
        }
        _ => None,
    }
}
pub fn conv_short_raw(v: &HV, which: u64) -> Option<RawFuzzyHash> {
    match which % 2 {
        0 => {
            let l = LongRawFuzzyHash::new_from_internals_near_raw(v.log, &v.bh1, &v.bh2);
            let mut d = dirty_short::<false>();
            l.try_into_mut_short(&mut d).ok()?;
            Some(d)
        }
        _ => {
            let dual = DualFuzzyHash::new_from_internals_near_raw(v.log, &v.bh1, &v.bh2);
            let mut d = dirty_short::<false>();
            dual.into_mut_raw_form(&mut d);
            Some(d)
        }
    }
}

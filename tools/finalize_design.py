#!/usr/bin/env python3
"""Regenerates the seeded-changes table inside DESIGN.md (between the SEED_TABLE markers)."""
import os, re, subprocess
V = os.path.dirname(os.path.dirname(os.path.abspath(__file__)))
p = os.path.join(V, "DESIGN.md")
s = open(p).read()
table = subprocess.run([os.path.join(V, "tools", "seed_table.py")], capture_output=True, text=True).stdout
block = "<!-- SEED_TABLE_BEGIN -->\n" + table + "<!-- SEED_TABLE_END -->"
if "@@SEED_TABLE@@" in s:
    s = s.replace("@@SEED_TABLE@@", block)
else:
    s = re.sub(r"<!-- SEED_TABLE_BEGIN -->.*?<!-- SEED_TABLE_END -->", lambda m: block, s, flags=re.S)
open(p, "w").write(s)
print("DESIGN.md seed table: %d rows" % (table.count("\n") - 2))

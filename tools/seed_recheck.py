#!/usr/bin/env python3
"""Re-run the quick check of every seeded change's property against the CURRENT machinery.

  tools/seed_recheck.py [seed ids...]

For each seed: scratch worktree of /repo + patch.diff, `VERIF_REPO=<scratch> ./check <property> quick`,
result stored in meta.json under "final_check" (does not repeat the suite/demo confirmation).
"""
import hashlib, json, os, shutil, subprocess, sys, time, glob
V = os.path.dirname(os.path.dirname(os.path.abspath(__file__)))

def sh(cmd, **kw):
    return subprocess.run(cmd, stdout=subprocess.PIPE, stderr=subprocess.STDOUT, text=True, **kw)

def main():
    want = sys.argv[1:]
    head = sh(["git", "-C", V, "rev-parse", "--short", "HEAD"]).stdout.strip()
    for d in sorted(glob.glob(os.path.join(V, "seeded", "*"))):
        sid = os.path.basename(d)
        if want and sid not in want:
            continue
        mp = os.path.join(d, "meta.json")
        m = json.load(open(mp))
        prop = m["property"]
        scratch = "/tmp/seedre-%s" % sid
        sh(["git", "-C", "/repo", "worktree", "remove", "--force", scratch])
        sh(["git", "-C", "/repo", "worktree", "add", "--detach", scratch, "HEAD"])
        try:
            a = sh(["git", "-C", scratch, "apply", os.path.join(d, "patch.diff")])
            if a.returncode != 0:
                res = {"verdict": "patch no longer applies", "exit": -1}
            else:
                env = dict(os.environ); env["VERIF_REPO"] = scratch
                t0 = time.time()
                r = subprocess.run([os.path.join(V, "check"), prop, "quick"], env=env, stdout=subprocess.PIPE, stderr=subprocess.PIPE, text=True)
                mons = sorted(set(l.strip().split()[0].replace("monitor=", "") for l in r.stdout.splitlines() if l.strip().startswith("monitor=")))
                res = {"check": prop, "exit": r.returncode, "verdict": {0: "silent", 1: "violation reported", 2: "inconclusive"}.get(r.returncode, "error"),
                       "monitors": mons, "wall_s": round(time.time() - t0, 1), "verif_commit": head}
        finally:
            sh(["git", "-C", "/repo", "worktree", "remove", "--force", scratch])
            tag = "-" + hashlib.sha1(scratch.encode()).hexdigest()[:8]
            for b in os.listdir(os.path.join(V, "build")):
                if b.endswith(tag):
                    shutil.rmtree(os.path.join(V, "build", b), ignore_errors=True)
        m["final_check"] = res
        json.dump(m, open(mp, "w"), indent=1)
        print(sid, prop, res["verdict"], res.get("monitors", [])[:4], flush=True)

if __name__ == "__main__":
    main()

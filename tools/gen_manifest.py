#!/usr/bin/env python3
"""Regenerates /verif/MANIFEST.json (kept in git; edit this file, not the JSON)."""
import json, os, subprocess
V = os.path.dirname(os.path.dirname(os.path.abspath(__file__)))
props = [json.loads(l) for l in open(os.path.join(V, "properties.jsonl"))]
hooks = subprocess.run(["git", "-C", "/repo", "log", "--format=%h %s"], capture_output=True, text=True).stdout.splitlines()
hook_commits = [l.split()[0] for l in hooks if l.split(" ", 1)[1].startswith("verif hooks")]

T = {
 "C01": ("reference-model monitor: libfuzzy 2.14.1 port (O1, calibrated on the repo's real-ssdeep vectors, cross-checked by the naive definition O2) watching generator executions over random, border-size and trigger-word inputs",
         "Held on the monitored inputs only; O1 is trusted as a port of fuzzy.c (re-calibrated on 880 real ssdeep vectors each run). Output block-size indices above ~13 (quick) / ~24 (thorough) are covered by C13 through the hook."),
 "C02": ("reference-model monitor: fuzzy_compare port (O5: own normalization, naive 7-gram test, DP edit distance) watching every comparison entry point on generated hash pairs",
         "Held on the monitored pairs; O5 trusted as a port of fuzzy_compare/score_strings."),
 "C03": ("metamorphic + reference-model monitor over delivery histories (all two-chunk splits x form pairs for small payloads, random chunked histories with clones and intermediate finalizations, reader-based forms)",
         "Observable outputs only (internal state legitimately differs between delivery forms); O1 as in C01."),
 "C04": ("reference-model monitor: grammar recogniser O3 vs all six parsers through three entry points, totality monitor (catch_unwind), validity and index invariants",
         "O3 is the reading of the grammar in the property statement; only the error origin (not kind/offset) is compared."),
 "C05": ("invariant monitors on formatter outputs vs independent rendering O8; caller-buffer contract with sentinel buffers of every length; parse-format round trips",
         "Held on the generated objects/texts."),
 "C06": ("reference-model monitor: run-collapse oracle O4 vs every normalization route; exhaustive single-run and two-run layouts",
         "Held on enumerated layouts and random multi-run hashes."),
 "C07": ("invariant monitors on dual hashes (losslessness, canonicity across seven construction routes, Hash/Ord/Eq agreement with a recording hasher, injectivity on same-normalization pairs)",
         "Held on enumerated run layouts and random raw hashes."),
 "C08": ("reference-model monitor: textbook LCS DP vs bit-parallel edit distance; exhaustive small alphabets + structured/random pairs",
         "Exhaustive only for the stated small-alphabet sub-spaces; sampled beyond."),
 "C09": ("reference-model monitor: naive 7-gram test vs the backward-scan pre-filter; planted grams at every offset pair, near misses, exhaustive binary strings",
         "Exhaustive only for the stated sub-spaces; sampled beyond."),
 "C10": ("invariant monitors: score laws, candidate <=> window-set intersection, window encoding against the definition, iterator contracts",
         "Held on generated normalized pairs (short and long forms, all 31x31 block sizes)."),
 "C11": ("invariant monitors (is_valid, full_eq vs ==) after every step of random API histories with dirty destinations; out-of-contract constructor calls must panic; garbage objects must not panic validity/Debug; run with AND without debug assertions",
         "Arbitrary-content objects are made by bit copy (all fields are plain integers)."),
 "C12": ("contract-model monitor (O1 without hint + size rules) over hint/reset histories incl. refused calls, clones and hook-based large prefixes",
         "O1 as in C01; the hook is validated by C13."),
 "C13": ("reference-model monitor through the cfg(a4lg_ffuzzy_verif) zero-prefix hook: O1 with closed-form zero jump over sizes 0..192GiB+; hook and jump re-validated against real feeding every run",
         "Prefix is always zero bytes; non-zero data at multi-GiB offsets only up to 4 GiB (C01 thorough). Hook trusted only after its per-run validation."),
 "C14": ("configuration-differential monitoring: byte-identical transcripts across feature sets x debug assertions, all other monitors re-run inside each configuration, unchecked-vs-checked twins, Miri UB interpreter (first cases of every monitor plus a sharded shaped scan of boundary cases) and AddressSanitizer on the unsafe build, memory faults / unsafe-precondition aborts of unsafe builds counted as violations",
         "Miri/ASan see only the executions of the clamped workloads; intra-object overflows are invisible to ASan (Miri is primary)."),
 "C15": ("abstract-model monitor (O8) over random conversion chains with dirty destinations; narrowing contract",
         "Held on generated chains."),
 "C16": ("invariant monitors: Eq/Hash/Ord axioms on pools of closely related values, documented order from the abstract model, sort checks",
         "Dual hashes sharing a normalized part: only order axioms demanded (documented as implementation-defined)."),
 "C17": ("invariant monitors on reused comparison targets / position arrays vs fresh ones over initialization sequences",
         "Held on generated sequences."),
 "C18": ("fault injection: failing/short Read implementations at every read index and error kind, special files, and strace syscall fault injection (read errors, premature EOF, phantom bytes, statx/openat failures, files that shrink between the metadata query and the reads, multi-GiB sparse files) around hash_file",
         "strace part is skipped (and recorded as such) if ptrace is unavailable; any error is accepted, only Ok is a violation."),
 "C19": ("reference-model monitor: from-scratch rolling hash and 32-bit FNV-1 vs the primitives at every prefix; exhaustive FNV (state, byte) steps; six update forms",
         "FNV step space is complete; rolling hash sampled."),
 "C20": ("exhaustive enumeration of the finite domains under runtime monitors (all u32 block sizes, logs, 31x31 relations, score triples)",
         "Complete for the stated domains, in release and debug-assertion builds."),
}
checks = []
for p in props:
    pid = p["id"]
    tech, note = T[pid]
    checks.append({
        "property_id": pid,
        "quick_cmd": "./check %s quick" % pid,
        "thorough_cmd": "./check %s thorough" % pid,
        "evidence_file": "/verif/evidence/%s.json" % pid,
        "replay_cmd_template": "./check %s --replay {path}" % pid,
        "engine": "vh",
        "level_claimed": {
            "category": "fault_enumeration" if pid == "C18" else "exploration",
            "text": "Runtime monitoring: the property held on every execution the monitors observed (counts, histograms and samples in the evidence file); nothing is proved beyond that. " + tech,
            "design_ref": "DESIGN.md section 4 (%s)" % pid,
        },
        "level_note": note,
        "technique": "runtime monitoring: " + tech.split(":")[0].split(";")[0][:120],
    })
m = {
    "version": 1,
    "setup_cmd": "./check --setup",
    "hooks": {
        "guard": "a4lg_ffuzzy_verif",
        "enable": "RUSTFLAGS=\"--cfg a4lg_ffuzzy_verif\" (rustc cfg; set by ./check for every harness build)",
        "baseline_off_cmd": "cd /repo && (cargo nextest run --workspace --no-fail-fast --tool-config-file pb:/w/lib/nextest.toml --profile pb --test-threads 8 --offline || cargo test --workspace --no-fail-fast --offline)",
        "source_commits": hook_commits,
        "add_only": True,
    },
    "engines": [
        {"name": "vh", "path": "/verif/harness", "serves_properties": [p["id"] for p in props],
         "kind_free_text": "Rust harness linked against /repo/ffuzzy by path: workload generators, reference models (libfuzzy port, grammar, LCS, ...), per-property monitors, totality monitor; built per feature configuration by ./check"},
        {"name": "check", "path": "/verif/check", "serves_properties": [p["id"] for p in props],
         "kind_free_text": "python driver: builds configurations from /repo's working tree with the hook cfg, runs monitors under watchdogs, merges evidence, known-findings filter, Miri/ASan/strace orchestration"},
    ],
    "checks": checks,
    "not_applicable": [],
    "notes": "Family: runtime monitoring and sanitizers. Verdicts are three-valued (exit 0 held / 1 violation / 2 inconclusive). Known findings: /verif/known_findings.txt (two defects found and fixed in /repo by 'fix:' commits).",
}
json.dump(m, open(os.path.join(V, "MANIFEST.json"), "w"), indent=1)
print("wrote MANIFEST.json with", len(checks), "checks; hook commits", hook_commits)

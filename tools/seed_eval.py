#!/usr/bin/env python3
"""Confirm a seeded change and run the checks against it.

  tools/seed_eval.py <seed-id> <property> <patch.diff> <demo.rs> "<what it needs to manifest>" [check ids...]

Steps (all in a scratch worktree of /repo outside /repo and /verif, removed afterwards):
  1. patch applies, library builds, the pinned test suite passes with the patch (cargo test --workspace --offline)
  2. the demonstration fails with the patch and passes without it
  3. ./check <property> quick (and any further listed checks) with VERIF_REPO=<scratch> -> alarm or silent
Results go to /verif/seeded/<seed-id>/{patch.diff,demo.rs,meta.json}.
"""
import hashlib, json, os, shutil, subprocess, sys, time

V = os.path.dirname(os.path.dirname(os.path.abspath(__file__)))


def sh(cmd, **kw):
    return subprocess.run(cmd, stdout=subprocess.PIPE, stderr=subprocess.STDOUT, text=True, **kw)


def demo_cmd():
    """SEED_DEMO_MIRI=1: the demonstration only fails under the undefined-behaviour interpreter"""
    if os.environ.get("SEED_DEMO_MIRI"):
        return ["cargo", "+nightly", "miri", "test", "--offline", "-p", "ffuzzy", "--test", "seed_demo"] + os.environ.get("SEED_DEMO_ARGS", "").split()
    return ["cargo", "test", "--offline", "-p", "ffuzzy", "--test", "seed_demo"] + os.environ.get("SEED_DEMO_ARGS", "").split()


def main():
    sid, prop, patch, demo, needs = sys.argv[1:6]
    checks = sys.argv[6:] or [prop]
    tier = os.environ.get("SEED_TIER", "quick")
    scratch = "/tmp/seedrun-%s" % sid
    sh(["git", "-C", "/repo", "worktree", "remove", "--force", scratch])
    sh(["git", "-C", "/repo", "worktree", "add", "--detach", scratch, "HEAD"])
    meta = {"seed": sid, "property": prop, "needs": needs, "ran": [], "base_commit": sh(["git", "-C", "/repo", "rev-parse", "--short", "HEAD"]).stdout.strip()}
    ok = True
    try:
        os.makedirs(os.path.join(scratch, "ffuzzy", "tests"), exist_ok=True)
        shutil.copy(demo, os.path.join(scratch, "ffuzzy", "tests", "seed_demo.rs"))
        r = sh(demo_cmd(), cwd=scratch)
        meta["ran"].append({"cmd": " ".join(demo_cmd()) + " (unchanged tree)", "passed": r.returncode == 0})
        ok &= r.returncode == 0
        a = sh(["git", "-C", scratch, "apply", os.path.abspath(patch)])
        meta["ran"].append({"cmd": "git apply patch.diff", "passed": a.returncode == 0, "out": a.stdout[-300:]})
        ok &= a.returncode == 0
        r = sh(demo_cmd(), cwd=scratch)
        meta["ran"].append({"cmd": " ".join(demo_cmd()) + " (with the change)", "failed_as_required": r.returncode != 0})
        ok &= r.returncode != 0
        os.remove(os.path.join(scratch, "ffuzzy", "tests", "seed_demo.rs"))
        t = sh(["cargo", "test", "--workspace", "--offline"], cwd=scratch)
        tail = [l for l in t.stdout.splitlines() if l.startswith("test result")]
        meta["ran"].append({"cmd": "cargo test --workspace --offline (with the change, without the demo)", "passed": t.returncode == 0, "summary": tail})
        ok &= t.returncode == 0
        for feats in (["--features", "unsafe"], ["--no-default-features"]):
            b = sh(["cargo", "build", "--offline", "-p", "ffuzzy"] + feats, cwd=scratch)
            meta["ran"].append({"cmd": "cargo build -p ffuzzy " + " ".join(feats), "passed": b.returncode == 0})
        meta["confirmed"] = bool(ok)
        det = {}
        env = dict(os.environ)
        env["VERIF_REPO"] = scratch
        for c in checks:
            t0 = time.time()
            r = subprocess.run([os.path.join(V, "check"), c, tier], env=env, stdout=subprocess.PIPE, stderr=subprocess.PIPE, text=True)
            mons = sorted(set(l.strip().split()[0] for l in r.stdout.splitlines() if l.strip().startswith("monitor=")))
            det[c] = {"exit": r.returncode, "verdict": {0: "silent", 1: "violation reported", 2: "inconclusive"}.get(r.returncode, "error"),
                      "monitors": mons, "first": next((l.strip()[:400] for l in r.stdout.splitlines() if l.strip().startswith("monitor=")), ""),
                      "wall_s": round(time.time() - t0, 1)}
        meta["checks_%s" % tier] = det
    finally:
        sh(["git", "-C", "/repo", "worktree", "remove", "--force", scratch])
        tag = "-" + hashlib.sha1(scratch.encode()).hexdigest()[:8]
        for d in os.listdir(os.path.join(V, "build")):
            if d.endswith(tag):
                shutil.rmtree(os.path.join(V, "build", d), ignore_errors=True)
    out = os.path.join(V, "seeded", sid)
    os.makedirs(out, exist_ok=True)
    shutil.copy(patch, os.path.join(out, "patch.diff"))
    shutil.copy(demo, os.path.join(out, "demo.rs"))
    old = {}
    if os.path.exists(os.path.join(out, "meta.json")):
        old = json.load(open(os.path.join(out, "meta.json")))
    old.update(meta)
    json.dump(old, open(os.path.join(out, "meta.json"), "w"), indent=1)
    print(json.dumps({k: v for k, v in meta.items() if k != "ran"}, indent=1))
    print("confirmed" if ok else "NOT CONFIRMED", [x for x in meta["ran"]])


if __name__ == "__main__":
    main()

#!/usr/bin/env python3
"""Prints the markdown table of seeded changes (from seeded/*/meta.json) for DESIGN.md section 11."""
import json, os, glob
V = os.path.dirname(os.path.dirname(os.path.abspath(__file__)))
rows = []
for d in sorted(glob.glob(os.path.join(V, "seeded", "*"))):
    p = os.path.join(d, "meta.json")
    if not os.path.exists(p):
        continue
    m = json.load(open(p))
    checks = m.get("checks_quick", {})
    det = ", ".join("%s: %s%s" % (c, "ALARM" if v["exit"] == 1 else ("silent" if v["exit"] == 0 else "inconclusive"),
                                  (" (" + ",".join(x.replace("monitor=", "") for x in v["monitors"][:3]) + ")") if v.get("monitors") else "")
                    for c, v in checks.items())
    hist = "; ".join("%s -> %s" % (h.get("stage", ""), ", ".join("%s %s" % (k, v) for k, v in h.items() if k != "stage")) for h in m.get("history", []))
    fc = m.get("final_check")
    if fc:
        final = "%s: %s (%s)" % (fc.get("check", m["property"]), "ALARM" if fc.get("exit") == 1 else fc.get("verdict"), ",".join(fc.get("monitors", [])[:3]))
    elif checks.get(m["property"], {}).get("exit") == 1:
        # rounds 5-9 were last evaluated with (nearly) the committed machinery: see the previous column
        final = "%s: ALARM (as evaluated, previous column)" % m["property"]
    else:
        final = "-"
    note = (" — note: " + m["note"]) if m.get("note") else ""
    rows.append("| %s | %s | %s | %s | %s | %s |" % (m["seed"], m["property"], "yes" if m.get("confirmed") else "NO", m["needs"].replace("|", "/"), det + ((" — history: " + hist) if hist else "") + note, final))
print("| seed | property | confirmed (suite passes, demo fails with / passes without) | needs, in order to manifest | quick checks run against it when it was evaluated (+ history / notes) | re-run of the property's quick check against the final machinery |")
print("|---|---|---|---|---|---|")
print("\n".join(rows))
